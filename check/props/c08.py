"""C08 — runtime limits stop runaway scripts and cannot be intercepted.
tie: (i) static: every code block compiled for a loop corpus and for generated programs passes the ranking check
(`rankOk`, proved in C08/Theorems.lean to bound the instructions between two executions of the loop counter), on blocks
taken from the compiler through the boa_verif dump hook (same pipeline as C03); (ii) correspondence of the dynamic model
(loop counter per activation, propagation of the uncatchable error through call routes / catch / finally, recursion-depth
accounting) with the engine: the Lean driver predicts trace and completion of generated programs under a grid of limits."""
import json
import os
import sys

import jsgen
import lib

sys.path.insert(0, os.path.dirname(os.path.abspath(__file__)))
import c03  # noqa: E402  (shared dump/verify pipeline)

# ------------------------------------------------------------------ static corpus: every loop form x every way round the loop
LOOP_HEADS = [
    ("while", "var i = 0; %swhile (i < 3) { i++; %s }"),
    ("dowhile", "var i = 0; %sdo { i++; %s } while (i < 3);"),
    ("for", "%sfor (var i = 0; i < 3; i++) { %s }"),
    ("forlet", "%sfor (let i = 0; i < 3; i++) { %s }"),
    ("forever", "var i = 0; %sfor (;;) { if (i++ > 2) break; %s }"),
    ("forin", "%sfor (var k in {a: 1, b: 2}) { %s }"),
    ("forof", "%sfor (var k of [1, 2, 3]) { %s }"),
    ("forofdestr", "%sfor (let [k] of [[1], [2]]) { %s }"),
]
BODIES = ["print(1);", "continue;", "if (i) continue; print(1);", "try { continue; } finally { print(2); }", "try { throw 1; } catch (e) { continue; }",
          "switch (1) { case 1: continue; }", "if (i > 1) break; else continue;", "L2: for (var j = 0; j < 2; j++) { continue L2; }",
          "for (var j = 0; j < 2; j++) { continue L1; }", "do { continue L1; } while (0);", "with ({}) { continue; }"]


def static_corpus():
    out = []
    for name, head in LOOP_HEADS:
        for body in BODIES:
            label = "L1: " if "L1" in body else ""
            loop = head % (label, body)
            out.append(loop)
            out.append("function f() { %s } f();" % loop)
            out.append("function* g() { %s yield 1; } [...g()];" % loop)
            out.append("async function a() { %s await 1; } a();" % loop)
            out.append("(() => { %s })(); class K { static { %s } m() { %s } } new K().m();" % (loop, loop, loop))
    out.append("async function fa() { L1: for await (const v of [1, 2]) { if (v) continue L1; print(v); } for await (var w of [1]) { try { continue; } finally { } } } fa();")
    out.append("async function* ga() { for await (const v of [1, 2]) { yield v; continue; } } (async () => { for await (const x of ga()) { continue; } })();")
    return out


# ------------------------------------------------------------------ dynamic: loops under a limit
def loop_program(form, n, variant, wrap):
    """a loop whose body wants to run n times in its own activation; returns (js, model form)"""
    body = "print('b' + c);"
    if variant == 1:
        body += " continue;"
    elif variant == 2:
        body = "try { print('b' + c); continue; } finally { }"
    elif variant == 3:
        body = "if (c % 2) { print('b' + c); continue; } print('b' + c);"
    if form == "while":
        loop, mf = "var c = 0; while (c < %d) { c++; %s }" % (n, body), "pre"
    elif form == "for":
        loop, mf = "for (var c = 1; c <= %d; c++) { %s }" % (n, body), "post"      # the counter sits in front of the update expression
    elif form == "forlet":
        loop, mf = "for (let c = 1; c <= %d; c++) { %s }" % (n, body), "post"
    elif form == "forof":
        loop, mf = "for (var c of [%s]) { %s }" % (",".join(str(i + 1) for i in range(n)), body), "pre"
    elif form == "forin":
        loop, mf = "for (var c in {%s}) { %s }" % (",".join("%d:0" % (i + 1) for i in range(n)), body), "pre"
    elif form == "forofgen":
        loop, mf = "for (var c of (function*(){ yield* [%s]; })()) { %s }" % (",".join(str(i + 1) for i in range(n)), body), "pre"
    elif form == "dowhile":
        loop, mf = "var c = 0; do { c++; %s } while (c < %d);" % (body, n), "post"
    elif form == "labelled":
        loop, mf = "var c = 0; L: while (c < %d) { c++; { %s } }" % (n, body.replace("continue;", "continue L;")), "pre"
    else:
        raise ValueError(form)
    inner = "%s print('after-loop');" % loop
    if wrap == 0:
        js = "(function(){ %s })(); print('after-call');" % inner
    elif wrap == 1:
        js = "try { (function(){ try { %s } catch (e) { print('caught-inner'); } finally { print('finally-inner'); } })(); } catch (e) { print('caught-outer'); } finally { print('finally-outer'); } print('after-call');" % inner
    elif wrap == 2:
        js = "var o = {get x(){ try { %s } finally { print('finally-inner'); } }}; try { o.x; } catch (e) { print('caught-outer'); } print('after-call');" % inner
    elif wrap == 3:
        js = "try { [1].forEach(function(){ %s }); } catch (e) { print('caught-outer'); } finally { print('finally-outer'); } print('after-call');" % inner
    else:
        js = "%s print('after-call');" % inner      # top level of the script
    return js, mf


def expected_loop(n, bodies, limited, wrap):
    out = ["b%d" % (i + 1) for i in range(bodies)]
    if limited:
        return out
    out.append("after-loop")
    if wrap == 1:
        out += ["finally-inner", "finally-outer"]
    elif wrap == 2:
        out += ["finally-inner"]
    elif wrap == 3:
        out += ["finally-outer"]
    out.append("after-call")
    return out


# ------------------------------------------------------------------ dynamic: behaviour trees through every route
ROUTES = [
    ("direct", "(function(){ %s })();", False),
    ("new", "new (function(){ %s })();", False),
    ("getter", "({get x(){ %s }}).x;", False),
    ("setter", "({set x(v){ %s }}).x = 1;", False),
    ("proxy-get", "new Proxy({}, {get(){ %s }}).x;", False),
    ("proxy-has", "('x' in new Proxy({}, {has(){ %s return true; }}));", False),
    ("forEach", "[1].forEach(function(){ %s });", False),
    ("sort", "[2, 1].sort(function(){ %s return 0; });", False),
    ("replace", "'a'.replace(/a/, function(){ %s return ''; });", False),
    ("toString", "'' + {toString(){ %s return ''; }};", False),
    ("valueOf", "+{valueOf(){ %s return 1; }};", False),
    ("toPrimitive", "`${{[Symbol.toPrimitive](){ %s return ''; }}}`;", False),
    ("Reflect.apply", "Reflect.apply(function(){ %s }, null, []);", False),
    ("Reflect.construct", "Reflect.construct(function(){ %s }, []);", False),
    ("bind", "(function(){ %s }).bind(null)();", False),
    ("call", "(function(){ %s }).call(null);", False),
    ("apply", "(function(){ %s }).apply(null, []);", False),
    ("eval", "eval(%EVAL%);", False),
    ("generator", "(function*(){ %s })().next();", False),
    ("spread-generator", "[...(function*(){ %s })()];", False),
    ("iterator", "for (var _q of {[Symbol.iterator](){ return {next(){ %s return {done: true}; }}; }}) {}", False),
    ("tagged", "(function(){ %s })`x`;", False),
    ("Array.from", "Array.from([1], function(){ %s });", False),
    ("JSON.parse", "JSON.parse('1', function(k, v){ %s });", False),
    ("JSON.stringify", "JSON.stringify({toJSON(){ %s }});", False),
    ("hasInstance", "(1 instanceof {[Symbol.hasInstance](){ %s }});", False),
    ("static-block", "(class { static { %s } });", False),
    ("field-init", "new (class { f = (function(){ %s })(); })();", False),
    ("default-param", "(function(a = (function(){ %s })()){})();", False),
    ("arrow", "(() => { %s })();", False),
    ("map-callback", "new Map([[1, 1]]).forEach(function(){ %s });", False),
    ("defineProperty-getter", "Object.defineProperty({}, 'x', {get(){ %s }}).x;", False),
    ("species", "[1].map(function(){ %s });", False),
    ("reduce", "[1, 2].reduce(function(){ %s });", False),
    # routes that turn an ordinary exception of the callee into a rejected promise (the model wraps them in a catch)
    ("promise-executor", "new Promise(function(){ %s });", True),
    ("async", "(async function(){ %s })();", True),
    ("async-arrow", "(async () => { %s })();", True),
]


class BehGen:
    def __init__(self, r, limit_kind):
        self.r = r
        self.tag = 0
        self.limit_kind = limit_kind
        self.routes_used = {}

    def fresh(self):
        self.tag += 1
        return self.tag

    def gen(self, d, must_limit=False):
        """returns (model tokens, js)"""
        r = self.r
        k = r() % 100
        if d <= 0:
            if must_limit or k < 30:
                return ["L"], self.limit_js()
            if k < 45:
                return ["T"], "throw 1;"
            if k < 75:
                t = self.fresh()
                return ["E", str(t), "D"], "print(%d);" % t
            return ["D"], ""
        if k < 14:
            t = self.fresh()
            m, js = self.gen(d - 1, must_limit)
            return ["E", str(t)] + m, "print(%d); %s" % (t, js)
        if k < 50:
            ri = r() % len(ROUTES)
            name, tpl, swallows = ROUTES[ri]
            self.routes_used[name] = self.routes_used.get(name, 0) + 1
            mc, jc = self.gen(d - 1, must_limit)
            mk, jk = self.gen(d - 1)
            if name == "eval":
                call = "eval(%s);" % json.dumps("(function(){ %s })()" % jc)
            else:
                call = tpl % jc
            if swallows:
                return ["Y", "C"] + mc + ["D", "D"] + mk, "%s %s" % (call, jk)
            return ["C"] + mc + mk, "%s %s" % (call, jk)
        if k < 75:
            mb, jb = self.gen(d - 1, must_limit)
            mh, jh = self.gen(d - 1)
            mk, jk = self.gen(d - 1)
            return ["Y"] + mb + mh + mk, "try { %s } catch (e) { %s } %s" % (jb, jh, jk)
        mb, jb = self.gen(d - 1, must_limit)
        mf, jf = self.gen(d - 1)
        mk, jk = self.gen(d - 1)
        return ["F"] + mb + mf + mk, "try { %s } finally { %s } %s" % (jb, jf, jk)

    def limit_js(self):
        if self.limit_kind == "loop":
            return self.r() % 2 and "for (;;) {}" or "var z_ = 0; do { z_++; } while (true);"
        if self.limit_kind == "rec":
            return "(function r_(){ r_(); })();"
        return "(function s_(a, b, c, d, e, f, g, h){ s_(a, b, c, d, e, f, g, h); })(1, 2, 3, 4, 5, 6, 7, 8);"


def classify(j):
    c = j["completion"]
    if c.startswith("ok"):
        return "normal"
    if "RuntimeLimit" in c:
        return "limited"
    if c.startswith("err"):
        return "thrown"
    return c


def run(ck):
    ck.trusted_base += [
        "boa_verif hook dump_code_blocks + check/bytecode.py (static part, shared with C03)",
        "modelled, not verified: the two loop shapes (counter before a leading / a trailing test), the per-activation counter, the "
        "recursion-depth costs of the direct and the native-callback route; each is validated against the engine on every run. "
        "The stack-size limit is exercised (uncatchability) but its threshold is not modelled. Instruction budgets (fuzz feature) are not part of the property.",
    ]
    ck.prove("BoaVerif.C08.Theorems", driver="drv-c08")
    ck.lake(["drv-c03"])
    bins = ck.build_harness(["dump", "trace"])
    r = lib.rng(ck.seed)
    quick = ck.tier == "quick"

    # ---- (i) static: the counter is on every cycle of every block
    progs = static_corpus() + [jsgen.gen_program(r, 4, strict=(i % 4 == 0)) for i in range(120 if quick else 3000)]
    st, ops_seen, rejects = c03.verify(ck, bins, progs, "s", run=False)
    ung = st.get("guarded:0", 0)
    for p, b in c03.UNGUARDED[:]:
        ck.fail_input({"site": "loop-without-counter", "input": p, "block": b["name"],
                       "expected": "rankOk: every cycle of the block's control-flow graph passes an IncrementLoopIteration",
                       "actual": "no ranking exists: a cycle avoids the counter", "oracle": "static ranking check (steps_bounded)"})
    del c03.UNGUARDED[:]
    # a block the C03 check rejects is C03's finding; here only the counter matters

    # ---- (ii) loops under a limit: the Lean model predicts bodies run and the completion
    cases = []
    forms = ["while", "for", "forlet", "forof", "forin", "forofgen", "dowhile", "labelled"]
    limits = [0, 1, 2, 5] if quick else [0, 1, 2, 3, 5, 8, 13, 40]
    for form in forms:
        for L in limits:
            for dn in ([-1, 0, 1, 2, 3] if quick else [-2, -1, 0, 1, 2, 3, 7]):
                n = L + dn
                if n < 1:
                    continue
                for variant in range(4):
                    wrap = r() % 5
                    js, mf = loop_program(form, n, variant, wrap)
                    cases.append({"kind": "loop", "form": form, "mf": mf, "L": L, "n": n, "variant": variant, "wrap": wrap, "js": js, "hdr": "loop=%d" % L})
    # two loops in one activation share the counter; a generator keeps it across suspensions; so does an async function
    for L in limits:
        for n1, n2 in ((L // 2 + 1, L // 2 + 1), (L, 1), (1, L + 1), (L + 1, 1)):
            js = "(function(){ var c = 0; while (c < %d) { c++; print('b' + c); } var d = 0; while (d < %d) { d++; print('c' + d); } print('after-loop'); })(); print('after-call');" % (n1, n2)
            cases.append({"kind": "loop2", "L": L, "n1": n1, "n2": n2, "js": js, "hdr": "loop=%d" % L})
        for n in (L, L + 1, L + 2, L + 6):
            if n < 1:
                continue
            js = ("function* g(){ var c = 0; while (c < %d) { c++; print('b' + c); yield c; } print('after-loop'); } "
                  "var it = g(); try { it.next(); %s } catch (e) { print('caught'); } print('after-call');" % (n, " ".join("it.next();" for _ in range(n + 1))))
            cases.append({"kind": "genloop", "L": L, "n": n, "js": js, "hdr": "loop=%d" % L})
            js = ("function* g(){ var c = 0; while (c < %d) { c++; print('b' + c); yield c; } print('after-loop'); } "
                  "try { Array.from(g()); } catch (e) { print('caught'); } print('after-call');" % n)
            cases.append({"kind": "genloop", "L": L, "n": n, "js": js, "hdr": "loop=%d" % L})
            js = ("async function a(){ var c = 0; while (c < %d) { c++; print('b' + c); await c; } print('after-loop'); } "
                  "a().then(function(){ print('resolved'); }, function(){ print('rejected'); }); print('after-call');" % n)
            cases.append({"kind": "asyncloop", "L": L, "n": n, "js": js, "hdr": "loop=%d" % L})
    # ---- (iii) behaviour trees: the error passes every route, catch and finally
    n_trees = 500 if quick else 12000
    for i in range(n_trees):
        kind = ["loop", "loop", "rec", "stack"][i % 4]
        g = BehGen(r, kind)
        m, js = g.gen(2 + r() % 3, must_limit=(i % 3 != 0))
        hdr = {"loop": "loop=3", "rec": "rec=24", "stack": "stack=200 rec=100000"}[kind]
        cases.append({"kind": "tree", "model": m, "js": js, "hdr": hdr, "routes": g.routes_used, "limit_kind": kind})
    # ---- (iv) recursion depth: chains of direct and native-callback entries around the threshold
    for R in ([3, 4, 7, 12] if quick else [2, 3, 4, 5, 7, 12, 20, 33]):
        for pattern in ("d", "n", "dn", "nd", "ddn"):
            for depth in range(max(1, R // 2 - 2), R + 2):
                routes = [pattern[i % len(pattern)] for i in range(depth)]
                # innermost first: build the nesting from the inside out
                js = "print('bottom');"
                for rt in reversed(routes):
                    if rt == "d":
                        js = "(function(){ %s })();" % js
                    else:
                        js = "[1].forEach(function(){ %s });" % js
                js = "try { %s } catch (e) { print('caught'); } finally { print('finally'); } print('after');" % js
                cases.append({"kind": "nest", "R": R, "routes": routes, "js": js, "hdr": "rec=%d" % R})
    # ---- (v) the budget is returned: evaluations in one context, before and after refused / failing calls
    for R in (6, 9):
        deep = "print('bottom');"
        for _ in range(R - 2):
            deep = "(function(){ %s })();" % deep
        seq = [deep,
               "try { Reflect.apply(Symbol.prototype.toString, 1, []); } catch (e) { print('t'); }",
               "try { [1].forEach(function(){ null.x; }); } catch (e) { print('t'); }",
               "for (var q = 0; q < 8; q++) { try { Function.prototype.call.call(class {}, 1); } catch (e) { } try { [1].map(JSON.parse.bind(null, '{')); } catch (e) { } }",
               "(function r(){ r(); })();",
               "try { ({get x(){ return this.x; }}).x; } catch (e) { print('c'); }",
               deep]
        for k, s in enumerate(seq):
            cases.append({"kind": "reuse", "R": R, "k": k, "js": s, "hdr": "rec=%d reuse=1%s" % (R, "" if k else " reset=1")})

    # ---- run the engine
    src = []
    for i, c in enumerate(cases):
        src.append("//// c%d %s budget=30000000" % (i, c["hdr"]))
        src.append(c["js"])
    rc, out, err = ck.run_bin(bins["trace"], input="\n".join(src) + "\n")
    res = {}
    for l in out.splitlines():
        if l.startswith("{"):
            j = json.loads(l)
            res[j["id"]] = j
    if rc != 0 or len(res) != len(cases):
        ck.fail_input({"site": "engine-crash", "input": "c08 batch (%d cases)" % len(cases), "expected": "%d traces" % len(cases),
                       "actual": "rc=%s got %d: %s" % (rc, len(res), err[-300:])})
    # ---- ask the model
    reqs, owner = [], []
    for i, c in enumerate(cases):
        if c["kind"] == "loop":
            reqs.append("loop %s %d %d 0" % (c["mf"], c["L"], c["n"]))
            owner.append(i)
        elif c["kind"] == "tree":
            reqs.append("run " + " ".join(c["model"]))
            owner.append(i)
        elif c["kind"] == "nest":
            # the print at the bottom is a native call: it passes the same check as one more entry
            reqs.append("nest %d 1 0 %s d" % (c["R"], " ".join(c["routes"])))
            owner.append(i)
    answers = ck.driver("drv-c08", reqs) if reqs else []
    model = dict(zip(owner, answers))
    stats = {"loop": 0, "tree": 0, "nest": 0, "limited": 0, "normal": 0, "thrown": 0}
    routes_total = {}
    drift = 0

    def report(c, expected, j, site, oracle):
        ck.fail_input({"site": site, "input": c["js"], "limits": c["hdr"], "expected": expected,
                       "actual": {"out": j["out"][:40], "completion": j["completion"], "jobs": j.get("jobs")}, "oracle": oracle})

    for i, c in enumerate(cases):
        j = res.get("c%d" % i)
        if not j:
            continue
        cls = classify(j)
        if c["kind"] == "loop":
            stats["loop"] += 1
            a = model[i].split()
            bodies = int(a[0].split("=")[1])
            limited = a[2] == "limited"
            stats["limited" if limited else "normal"] += 1
            exp = expected_loop(c["n"], bodies, limited, c["wrap"])
            # the property's own oracle (independent of the model): more than L+2 wanted iterations must be stopped,
            # at most L must not be; the model fixes the exact threshold in between
            must_stop = c["n"] > c["L"] + 2
            must_pass = c["n"] <= c["L"]
            ok = (cls == ("limited" if limited else "normal")) and j["out"] == exp
            if not ok:
                prop_broken = (must_stop and cls != "limited") or (must_pass and cls != "normal") or \
                    (cls == "limited" and any(x.startswith(("caught", "finally", "after")) for x in j["out"])) or \
                    (cls == "limited" and len(j["out"]) > c["L"] + 2)
                if prop_broken:
                    report(c, {"out": exp, "completion": "limited" if limited else "normal"}, j, "loop-limit", "loop of n wanted iterations under limit L")
                else:
                    drift += 1
                    ck.model_drift({"input": c["js"], "limits": c["hdr"], "model": model[i], "implementation": {"out": j["out"][:20], "completion": j["completion"]}})
        elif c["kind"] == "loop2":
            stats["loop"] += 1
            L, n1, n2 = c["L"], c["n1"], c["n2"]
            # counter passes: (n1 + 1) + (n2 + 1) in one activation; L + 1 succeed
            exp, passes, lim = [], 0, False
            for tag, n in (("b", n1), ("c", n2)):
                for it in range(n + 1):
                    passes += 1
                    if passes > L + 1:
                        lim = True
                        break
                    if it < n:
                        exp.append("%s%d" % (tag, it + 1))
                if lim:
                    break
            if not lim:
                exp += ["after-loop", "after-call"]
            if not (cls == ("limited" if lim else "normal") and j["out"] == exp):
                report(c, {"out": exp, "completion": "limited" if lim else "normal"}, j, "loop-limit-shared-counter", "two loops in one activation share its counter")
        elif c["kind"] in ("genloop", "asyncloop"):
            stats["loop"] += 1
            L, n = c["L"], c["n"]
            lim = n + 1 > L + 1
            bodies = min(n, L + 1)
            exp = ["b%d" % (k + 1) for k in range(bodies)]
            if c["kind"] == "genloop":
                if not lim:
                    exp += ["after-loop", "after-call"]
                ok = cls == ("limited" if lim else "normal") and j["out"] == exp
            else:
                # the first body runs synchronously, the rest in jobs: 'after-call' follows b1
                exp2 = exp[:1] + ["after-call"] + exp[1:]
                if not lim:
                    exp2 += ["after-loop", "resolved"]
                jobs_limited = "RuntimeLimit" in (j.get("jobs") or "")
                ok = cls == "normal" and jobs_limited == lim and j["out"] == exp2
                exp = exp2
            if not ok:
                report(c, {"out": exp, "completion": "limited" if lim else "normal"}, j, "loop-limit-across-suspension",
                       "a suspended activation keeps its loop counter")
        elif c["kind"] == "tree":
            stats["tree"] += 1
            for k, v in c["routes"].items():
                routes_total[k] = routes_total.get(k, 0) + v
            a = model[i].split()
            exp_cls = a[0]
            exp_out = a[1:]
            stats[exp_cls] += 1
            if not (cls == exp_cls and j["out"] == exp_out):
                # which side is wrong? the property only speaks about limited runs: nothing may follow the error
                if exp_cls == "limited" or cls == "limited":
                    report(c, {"out": exp_out, "completion": exp_cls}, j, "limit-intercepted-or-outlived",
                           "Lean model run (limit_unstoppable): the error ends the evaluation, no handler/finally/continuation output")
                else:
                    drift += 1
                    ck.model_drift({"input": c["js"], "limits": c["hdr"], "model": model[i], "implementation": {"out": j["out"][:20], "completion": j["completion"]}})
        elif c["kind"] == "nest":
            stats["nest"] += 1
            refused = model[i] == "refused"
            exp = ["bottom", "finally", "after"] if not refused else []
            ok = cls == ("limited" if refused else "normal") and j["out"] == exp
            if not ok:
                total = sum(2 if x == "n" else 1 for x in c["routes"])
                # property-level facts: under the limit by any accounting -> unaffected; more entries than the limit -> stopped
                if (1 + total < c["R"] and cls != "normal") or (len(c["routes"]) >= c["R"] and cls != "limited") or \
                        (cls == "limited" and j["out"]):
                    report(c, {"out": exp, "completion": "limited" if refused else "normal"}, j, "recursion-limit", "nesting chain under recursion limit R")
                else:
                    drift += 1
                    ck.model_drift({"input": c["js"], "limits": c["hdr"], "model": model[i], "implementation": {"out": j["out"][:20], "completion": j["completion"]}})
        elif c["kind"] == "reuse":
            k = c["k"]
            if k in (0, 6):
                # R-2 nested calls + the script's frame stay under the limit: must run, before and after the failing calls
                if not (cls == "normal" and j["out"] == ["bottom"]):
                    report(c, {"out": ["bottom"], "completion": "normal"}, j, "recursion-budget-leaked" if k else "recursion-limit",
                           "the same nesting under the limit, in the same context, after refused and failing calls (leave_enter)")
            elif k == 4:
                if cls != "limited":
                    report(c, {"completion": "limited"}, j, "recursion-limit", "unbounded recursion is stopped (nest_stopped)")
    ck.oblige("correspondence:engine trace/completion == C08 model (loops %d, trees %d, nesting chains %d)" % (stats["loop"], stats["tree"], stats["nest"]),
              "correspondence", drift == 0, "%d disagreements outside the property's own demands" % drift if drift else None)
    ck.coverage.update({
        "evaluations": len(res),
        "distinct_nontrivial": len(set(c["js"] for c in cases)),
        "rule": "static: loop corpus (%d programs: 8 loop heads x 11 bodies x 5 activation kinds, for-await) + generated programs, every block must carry a ranking; "
                "dynamic: loops (8 forms x 4 body variants x 5 wrappers) with n wanted iterations around each limit L, two loops sharing a counter, generator/async loops; "
                "behaviour trees (emit/throw/limit/call by %d routes/try-catch/try-finally) under loop, recursion and stack limits; nesting chains of direct and "
                "native-callback entries around each recursion limit; budget-return sequences in one context. distinct = distinct program texts" % (len(static_corpus()), len(ROUTES)),
        "static_blocks": st["blocks"], "static_unguarded": ung, "static_programs": len(progs),
        "cases": {k: sum(1 for c in cases if c["kind"] == k) for k in sorted(set(c["kind"] for c in cases))},
        "model_outcomes": {k: stats[k] for k in ("limited", "normal", "thrown")},
        "routes_exercised": routes_total,
        "limits_grid": {"loop": limits, "recursion": [3, 4, 7, 12] if quick else [2, 3, 4, 5, 7, 12, 20, 33]},
        "samples": [cases[0]["js"], next(c["js"] for c in cases if c["kind"] == "tree")],
        "partial": ["stack-size threshold not modelled (only that the error is uncatchable)", "module evaluation and host-defined job queues not covered",
                    "loop forms are covered through the two lowered shapes; for-await only statically and by the async loop case"],
    })
