"""C06 — inline caches are semantically transparent.
tie: (i) trace validation of the cache state machine: every InlineCache::get / set the engine performs while running
generated histories (recorded by the boa_verif hook) is replayed through the Lean model of the cache, which must
predict every hit (with its slot) and every miss; (ii) the property's own differential: the same history with the
caches switched off (hook) must print the same trace."""
import json

import lib

KEYS = ["a", "b", "c", "d"]

PRELUDE = r"""
function S(f){ try { var v = f(); return typeof v === 'function' ? 'fn' : String(v); } catch (e) { return 'throw ' + (e && e.constructor ? e.constructor.name : e); } }
function ga(x){ return x.a; } function gb(x){ return x.b; } function gc(x){ return x.c; } function gd(x){ return x.d; }
function sa(x,v){ x.a = v; } function sb(x,v){ x.b = v; } function sc(x,v){ x.c = v; } function sd(x,v){ x.d = v; }
function gl(x){ return x.length; }
function sl(x,v){ x.length = v; }
function dl(x){ return x.length + ':' + Object.keys(x).join(); }
function gg1(){ return gv1; } function gg2(){ return gv2; } function sg1(v){ gv1 = v; }
var O = [];
"""


class Hist:
    def __init__(self, r):
        self.r = r
        self.lines = []
        self.n = 0
        self.protos = {}          # obj -> direct prototype obj index (or None)
        self.proto_mutated = set()  # objects structurally changed while serving as somebody's prototype
        self.risky = False

    def is_proto(self, i):
        return i in self.protos.values()

    def emit(self, js):
        self.lines.append(js)

    def mutate_note(self, i):
        if self.is_proto(i):
            self.proto_mutated.add(i)

    def new_obj(self):
        r = self.r
        k = r() % 5
        i = self.n
        if k < 2 or self.n == 0:
            ks = [x for x in KEYS if r() % 2]
            r2 = r() % 3
            if r2 == 0:
                ks.reverse()
            self.emit("O[%d] = {%s};" % (i, ", ".join("%s: %d" % (x, 10 * i + j) for j, x in enumerate(ks))))
            self.protos[i] = None
        elif k < 4:
            p = r() % self.n
            self.emit("O[%d] = Object.create(O[%d]);" % (i, p))
            self.protos[i] = p
        else:
            self.emit("O[%d] = %s;" % (i, ["[1, 2, 3]", "[1, 2, 3]", "[1.5, 2, 3, 4]", "['x', 'y']", "new String('ab')", "function(p, q){}"][r() % 6]))
            self.protos[i] = None
        self.n += 1

    def step(self):
        r = self.r
        if self.n == 0 or (self.n < 5 and r() % 6 == 0):
            return self.new_obj()
        o = r() % self.n
        key = KEYS[r() % 4]
        c = r() % 100
        if c < 40:
            reps = 1 + r() % 3
            self.emit("print(%s);" % " + ' ' + ".join("S(function(){ return g%s(O[%d]); })" % (key, o) for _ in range(reps)))
        elif c < 50:
            self.emit("print(S(function(){ s%s(O[%d], %d); return g%s(O[%d]); }));" % (key, o, r() % 100, key, o))
        elif c < 58:
            self.emit("O[%d].%s = %d;" % (o, key, r() % 100))
            self.mutate_note(o)
        elif c < 66:
            self.emit("delete O[%d].%s;" % (o, key))
            self.mutate_note(o)
        elif c < 72:
            kind = r() % 3
            if kind == 0:
                self.emit("Object.defineProperty(O[%d], '%s', { get() { return 'G%d'; }, configurable: true, enumerable: true });" % (o, key, o))
            elif kind == 1:
                self.emit("Object.defineProperty(O[%d], '%s', { value: %d, writable: %s, configurable: true, enumerable: true });" % (o, key, r() % 100, ["true", "false"][r() % 2]))
            else:
                self.emit("Object.defineProperty(O[%d], '%s', { set(v) { this._s = v; }, configurable: true });" % (o, key))
            self.mutate_note(o)
        elif c < 78 and self.n > 1:
            p = r() % self.n
            if p != o:
                self.emit("try { Object.setPrototypeOf(O[%d], O[%d]); } catch (e) { print('cycle'); }" % (o, p))
                self.protos[o] = p
        elif c < 81:
            self.emit("Object.freeze(O[%d]);" % o)
        elif c < 84:
            self.emit("print(S(function(){ return gl(O[%d]); }));" % o)
        elif c < 88:
            # `length` of an array is an ordinary slot whose WRITE is exotic (ArraySetLength deletes elements): a cached write must not bypass it
            self.emit("print(S(function(){ sl(O[%d], %d); return dl(O[%d]); }));" % (o, r() % 5, o))
        elif c < 93:
            g = r() % 4
            self.emit(["var gv1 = %d;" % (r() % 50), "globalThis.gv2 = %d;" % (r() % 50), "delete globalThis.gv2;",
                       "Object.defineProperty(globalThis, 'gv2', { get() { return 'GG'; }, configurable: true });"][g])
        else:
            self.emit("print(S(gg1) + ' ' + S(gg2) + ' ' + S(function(){ sg1(%d); return gv1; }));" % (r() % 9))


def gen(r, n_ops):
    h = Hist(r)
    for _ in range(n_ops):
        h.step()
    # a closing pass over every object and key through every site
    for o in range(h.n):
        h.emit("print(%s);" % " + ' ' + ".join("S(function(){ return g%s(O[%d]); })" % (k, o) for k in KEYS))
    return h


def corpus():
    """regression shapes (kept first)"""
    return [
        # the known stale-prototype scenario
        ["O[0] = {a: 1, b: 2};", "O[1] = Object.create(O[0]);", "print(S(function(){ return gb(O[1]); }) + ' ' + S(function(){ return gb(O[1]); }));",
         "delete O[0].a;", "print(S(function(){ return gb(O[1]); }));"],
        # polymorphic then megamorphic site
        ["O[0] = {a: 1};", "O[1] = {b: 1, a: 2};", "O[2] = {c: 1, a: 3};", "O[3] = {d: 1, a: 4};", "O[4] = {a: 5, b: 1};", "O[5] = {a: 6, c: 1};"] +
        ["print(S(function(){ return ga(O[%d]); }));" % i for i in list(range(6)) * 2],
        # own property shadows a cached prototype property
        ["O[0] = {a: 1};", "O[1] = Object.create(O[0]);", "print(S(function(){ return ga(O[1]); }) + S(function(){ return ga(O[1]); }));", "O[1].a = 9;",
         "print(S(function(){ return ga(O[1]); }));", "delete O[1].a;", "print(S(function(){ return ga(O[1]); }));"],
        # data -> accessor on the receiver itself
        ["O[0] = {a: 1};", "print(S(function(){ return ga(O[0]); }) + S(function(){ return ga(O[0]); }));",
         "Object.defineProperty(O[0], 'a', { get() { return 'G'; }, configurable: true });", "print(S(function(){ return ga(O[0]); }));"],
        # prototype replaced
        ["O[0] = {a: 1};", "O[1] = {a: 2};", "O[2] = Object.create(O[0]);", "print(S(function(){ return ga(O[2]); }) + S(function(){ return ga(O[2]); }));",
         "Object.setPrototypeOf(O[2], O[1]);", "print(S(function(){ return ga(O[2]); }));"],
        # a cached write of an array's `length` must still run ArraySetLength (elements beyond the new length are deleted)
        ["O[0] = [1, 2, 3];", "O[1] = [4, 5, 6];", "print(S(function(){ sl(O[0], 1); return dl(O[0]); }));", "print(S(function(){ sl(O[1], 1); return dl(O[1]); }));",
         "print(S(function(){ return 2 in O[1]; }) + ' ' + S(function(){ sl(O[1], 5); return dl(O[1]); }));",
         "O[2] = [7, 8, 9];", "Object.defineProperty(O[2], 'length', { writable: false });", "print(S(function(){ 'use strict'; sl(O[2], 0); return dl(O[2]); }) + ' ' + dl(O[2]));"],
    ]


def run(ck):
    ck.trusted_base += [
        "boa_verif hooks in core/engine/src/verif.rs and vm/inline_cache/mod.rs (record InlineCache get/set, switch caches off)",
        "modelled, not verified: shape transitions (SharedShape/UniqueShape, forward transitions) — the model takes shape identity "
        "from the recorded events; the GC clearing weak shapes (histories keep every object alive)",
    ]
    ck.prove("BoaVerif.C06.Theorems", driver="drv-c06")
    bins = ck.build_harness(["trace"])
    r = lib.rng(ck.seed)
    quick = ck.tier == "quick"
    hists = []
    for c in corpus():
        h = Hist(r)
        h.lines = list(c)
        hists.append(h)
    hists[0].risky = True
    for _ in range(350 if quick else 8000):
        hists.append(gen(r, 15 + r() % 40))
    src = []
    for i, h in enumerate(hists):
        for mode, hdr in (("on", "icrec=1"), ("off", "ic=0")):
            src.append("//// h%d.%s %s budget=20000000" % (i, mode, hdr))
            src.append(PRELUDE)
            src += h.lines
    rc, out, err = ck.run_bin(bins["trace"], input="\n".join(src) + "\n")
    res = {}
    for l in out.splitlines():
        if l.startswith("{"):
            j = json.loads(l)
            res[j["id"]] = j
    if rc != 0 or len(res) != 2 * len(hists):
        ck.fail_input({"site": "engine-crash", "input": "c06 batch", "expected": "%d traces" % (2 * len(hists)),
                       "actual": "rc=%s got %d: %s" % (rc, len(res), err[-300:])})
    # ---- (i) replay the recorded cache events through the model
    lines, expect = [], []
    ids = {}

    def num(tok):
        if tok not in ids:
            ids[tok] = len(ids) + 1
        return ids[tok]
    hits = misses = sets = 0
    for i, h in enumerate(hists):
        j = res.get("h%d.on" % i)
        if not j:
            continue
        lines.append("reset")
        expect.append("ok")
        for ev in j.get("ic", []):
            t = ev.split()
            if t[0] == "dead":
                lines.append("dead %d %s" % (num(t[1]), t[2]))
                expect.append(None)
            elif t[0] == "set":
                lines.append("set %d %d %s %s" % (num(t[1]), num(t[2]), t[3], t[4]))
                expect.append(None)
                sets += 1
            else:
                lines.append("get %d %d" % (num(t[1]), num(t[2])))
                expect.append(" ".join(t[3:]))
                if t[3] == "hit":
                    hits += 1
                else:
                    misses += 1
    model = ck.driver("drv-c06", lines)
    bad = 0
    for q, m, e in zip(lines, model, expect):
        if e is None or q == "reset":
            continue
        if m != e:
            bad += 1
            if bad <= 5:
                ck.model_drift({"input": q, "model": m, "implementation": e})
    ck.oblige("correspondence:InlineCache get/set events == C06 cache model (%d gets, %d sets)" % (hits + misses, sets),
              "correspondence", bad == 0, "%d disagreements" % bad if bad else None)
    # ---- (ii) caches on vs off
    dbad = 0
    for i, h in enumerate(hists):
        on, off = res.get("h%d.on" % i), res.get("h%d.off" % i)
        if not on or not off:
            continue
        if on["out"] == off["out"] and on["completion"] == off["completion"]:
            continue
        dbad += 1
        k = next((x for x in range(min(len(on["out"]), len(off["out"]))) if on["out"][x] != off["out"][x]), min(len(on["out"]), len(off["out"])))
        site = "ic-differential"
        # attribution to the recorded finding: the caches-on run dies with the index panic in get/set by name (or reads a value)
        # after an object that serves as a prototype was structurally changed
        prints = [ln for ln in h.lines if ln.startswith("print(")]
        stmt = prints[k] if k < len(prints) else ""
        import re
        receivers = [int(x) for x in re.findall(r"O\[(\d+)\]", stmt)]
        through_mutated_proto = h.risky or any(h.protos.get(i) in h.proto_mutated for i in receivers)
        if through_mutated_proto and on["completion"].startswith("panic index out of bounds"):
            site = "ic-prototype-entry-stale"
        else:
            # decisive attribution: with entries for prototype properties switched off (hook) and everything else cached,
            # does the history behave like the uncached run? then only prototype entries are involved (the recorded finding)
            src3 = "//// x ic=2 budget=20000000\n" + PRELUDE + "\n".join(h.lines) + "\n"
            rc3, out3, _ = ck.run_bin(bins["trace"], input=src3)
            try:
                j3 = json.loads(out3.split("\n")[0])
                if j3["out"] == off["out"] and j3["completion"] == off["completion"]:
                    site = "ic-prototype-entry-stale"
            except (ValueError, IndexError):
                pass
        ck.fail_input({"site": site, "input": h.lines, "expected": {"out": off["out"][k:k + 2], "completion": off["completion"]},
                       "actual": {"out": on["out"][k:k + 2], "completion": on["completion"]},
                       "oracle": "the same history with the inline caches switched off"})
    ck.coverage.update({
        "evaluations": len(res),
        "histories": len(hists),
        "distinct_nontrivial": len(set(tuple(h.lines) for h in hists if len(h.lines) > 8)),
        "rule": "a history = up to 5 objects (literals with shuffled key order, Object.create chains, arrays) mutated by add/delete/defineProperty "
                "(data<->accessor, writable)/freeze/setPrototypeOf and global-object changes, interleaved with repeated reads and writes through "
                "fixed access sites; each history is run with caches on (events recorded) and off. distinct = distinct histories longer than 8 lines",
        "ic_events": {"get_hit": hits, "get_miss": misses, "set": sets},
        "differential_disagreements": dbad,
        "samples": [hists[0].lines, hists[-1].lines[:12]],
        "partial": ["the theorems assume valid entries; entries for prototype properties become invalid when the prototype's layout changes "
                    "(proto_entry_stale, known finding C06-proto-stale); shape transitions are not modelled"],
    })
