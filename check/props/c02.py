"""C02 — no input makes the engine fail internally (no panic, abort, EnginePanic).
PROVED part: the Integer32 fast paths of the arithmetic / bitwise / shift / update operators (Lean model with Rust's own
failure modes explicit): fast_paths_never_panic, int_results_in_range, *_exact. Tie: the model and the engine (public
JsValue operators AND the VM's opcode handlers) are run on the same operand pairs — every pair of a grid of edge values,
plus random pairs — and must agree on value and representation.
EXPLORED part (not a proof): byte strings, token-level mutations and generated programs evaluated on fresh and reused
contexts under catch_unwind; any panic, abort or EnginePanic is a failing input."""
import json
import math
import struct

import jsgen
import lib

EDGE = [0, 1, -1, 2, -2, 3, -3, 5, 7, -7, 10, 16, 31, 32, 33, 63, 64, 255, 256, -256, 1000, 32767, 32768, 46340, 46341, -46341, 65535, 65536, -65536,
        1 << 20, 1 << 24, (1 << 30) - 1, 1 << 30, -(1 << 30), (1 << 30) + 1, 2147483646, 2147483647, -2147483647, -2147483648, 1073741823, 715827883, -715827883]
OPS2 = ["add", "sub", "mul", "div", "rem", "pow", "band", "bor", "bxor", "shl", "shr", "ushr"]
OPS1 = ["neg", "inc", "dec"]


def f64bits(x):
    return "%016x" % struct.unpack(">Q", struct.pack(">d", x))[0]


def expected_from_model(m):
    """model answer -> the set of engine renderings that agree with it (None = not comparable exactly)"""
    t = m.split()
    if t[0] in ("int", "num"):
        return {"int " + t[1], "num " + t[1]}, t[0]
    if t[0] in ("negzero", "nan", "inf", "-inf"):
        return {t[0]}, t[0]
    if t[0] == "quot":
        v = float(int(t[1])) / float(int(t[2]))
        return {render_float(v)}, "quot"
    if t[0] == "prod":
        v = float(int(t[1])) * float(int(t[2]))
        return {render_float(v)}, "prod"
    if t[0] == "powf":
        return None, "powf"
    return set(), t[0]


def render_float(v):
    if v != v:
        return "nan"
    if v == math.inf:
        return "inf"
    if v == -math.inf:
        return "-inf"
    if v == 0.0 and math.copysign(1.0, v) < 0:
        return "negzero"
    if v == int(v) and abs(v) < 1e300:
        return "num %d" % int(v)
    return "f " + f64bits(v)


def pow_close(x, y, got):
    try:
        want = float(x) ** y
    except (OverflowError, ZeroDivisionError):
        want = math.inf if (x > 0 or y % 2 == 0) else -math.inf
        if x == 0:
            want = math.inf
    if got in ("nan", "other") or got.startswith("panic") or got.startswith("err"):
        return False
    if got == "inf":
        return want == math.inf
    if got == "-inf":
        return want == -math.inf
    if got == "negzero":
        return want == 0.0
    k, v = got.split()
    g = float(int(v)) if k in ("int", "num") else struct.unpack(">d", struct.pack(">Q", int(v, 16)))[0]
    if want in (math.inf, -math.inf):
        return g == want
    return abs(g - want) <= 1e-12 * max(abs(want), 1e-300)


# ------------------------------------------------------------------------------------------------ exploration inputs
TOKENS = ["(", ")", "{", "}", "[", "]", ";", ",", ".", "...", "=>", "=", "==", "===", "+", "-", "*", "/", "%", "**", "++", "--", "<", ">", "<<", ">>>", "&", "|", "^", "!", "~", "?", ":", "??", "?.",
          "&&=", "||=", "??=", "+=", "var", "let", "const", "function", "function*", "async", "await", "yield", "class", "extends", "super", "new", "this", "return", "if", "else", "for", "of", "in",
          "while", "do", "break", "continue", "switch", "case", "default", "try", "catch", "finally", "throw", "typeof", "delete", "void", "instanceof", "with", "debugger", "static", "get", "set",
          "import", "export", "null", "undefined", "true", "false", "NaN", "0", "1", "-1", "2147483647", "-2147483648", "1e309", "0.1", "1n", "0x10", "''", "'a'", "`t${", "}`", "`x`", "/a/g", "/(?<n>a)/u",
          "a", "b", "x", "arguments", "eval", "Symbol", "Proxy", "Reflect", "Object", "Array", "Promise", "#p", "@", "\\u0061", "\n", "//c\n", "/*c*/", "label:", "=>{}", "[]", "{}", "()"]

NASTY = [
    "var a = []; a.push(a); try { print(a.toLocaleString().length); } catch (e) { print(e.name); }",
    "[0xD800, 0xDBFF, 0xDC00, 0xDFFF, 0xFFFF, 0x10000, 0x10FFFF].forEach(function (c) { var s = String.fromCodePoint(c); print(s.length, s.charCodeAt(0).toString(16), s.isWellFormed(), s.toWellFormed().length, [...s].length, s.codePointAt(0), JSON.stringify(s).length, s.normalize('NFC').length, s.toUpperCase().length, s.padEnd(3, s).length, s.localeCompare(s)); try { print(encodeURIComponent(s)); } catch (e) { print(e.name); } });",
    "print(String.fromCharCode(0xD800, 0xDC00).codePointAt(0), String.fromCodePoint(0x1F600, 0xDC00, 0x41).length, '\\uD83D'.concat('\\uDE00').at(0).length, escape('\\uD800'), unescape('%uD800').length);",
    "var m = (-2147483647 - 1) | 0; print(m % -1, m / -1, m * -1, -m, m ** 2, m >> 31, m >>> 0);",
    "var p={a:1,b:2}; var o=Object.create(p); function get(x){return x.b}; get(o);get(o); delete p.a; print(get(o));",
    "function f(){ f(); } try { f(); } catch (e) { print(e.name); }",
    "var a = []; a.length = 4294967295; try { a.push(1); } catch (e) { print(e.name); } print(a.length);",
    "try { new Array(-1); } catch (e) { print(e.name); } try { 'a'.repeat(-1); } catch (e) { print(e.name); } try { 'a'.repeat(2 ** 40); } catch (e) { print(e.name); }",
    "try { (1).toFixed(101); } catch (e) { print(e.name); } try { (1).toString(1); } catch (e) { print(e.name); } try { BigInt(1.5); } catch (e) { print(e.name); }",
    "try { null.x; } catch (e) { print(e.name); } try { undefined(); } catch (e) { print(e.name); } try { new (class A extends null {})(); } catch (e) { print(e.name); }",
    "var o = {}; o.__proto__ = new Proxy({}, { get() { throw 1; }, has() { throw 2; } }); try { o.x; } catch (e) { print(e); } try { with (o) { y; } } catch (e) { print(e); }",
    "try { Reflect.construct(function () {}, [], 1); } catch (e) { print(e.name); } try { new Proxy({}, null); } catch (e) { print(e.name); }",
    "function* g() { try { yield 1; } finally { yield 2; } } var it = g(); it.next(); print(JSON.stringify(it.return(5)), JSON.stringify(it.next()), JSON.stringify(it.throw && 1));",
    "var r = /(a*)*b/; print(r.test('aaaaaaaaaaaaaaaaaaaaaaaaaaaa')); print('x'.padStart(10, '').length); print([1,2,3].copyWithin(0, -5, 9).join());",
    "print(String.fromCodePoint(0x10FFFF).length); try { String.fromCodePoint(0x110000); } catch (e) { print(e.name); } print(encodeURIComponent('\\u00e9')); try { decodeURIComponent('%'); } catch (e) { print(e.name); }",
    "var ta = new Uint8Array(8); print(ta.subarray(-100, 100).length, ta.fill(300, -1, 50)[7]); try { new DataView(new ArrayBuffer(1), 2); } catch (e) { print(e.name); } try { ta.set([1], 9); } catch (e) { print(e.name); }",
    "class A { #x = 1; static t(o) { return #x in o; } } print(A.t(new A()), A.t({})); try { A.t(1); } catch (e) { print(e.name); }",
    "label: { break label; } a: b: c: for (;;) { break a; } print(eval('1;;;'), eval('var q = 1; if (q) { 2 } else { 3 }'));",
    "async function f() { await null; throw 1; } f().catch(e => print('c', e)); Promise.reject(2); new Promise(() => { throw 3; }).catch(print);",
    "var d = new Date(8.64e15 + 1); print(d.getTime(), String(new Date(NaN))); try { d.toISOString(); } catch (e) { print(e.name); }",
    "print([,1,,2].flat(Infinity).length, [1,[2,[3,[4]]]].flat(-1).length, Array.from({length: 3}, (_, i) => i * 2).join(), [3,1,2].sort(() => NaN).length);",
    "print(Number('0x'), Number('1e'), parseInt('', 37), parseFloat('.'), (25).toString(36), (-255).toString(16), (0.5).toString(2), 1e21.toString(7).length);",
    "try { JSON.parse('[' .repeat(200) + ']'.repeat(200)); } catch (e) { print(e.name); } try { JSON.stringify((function () { var a = []; a[0] = a; return a; })()); } catch (e) { print(e.name); }",
    "var s = Symbol(); try { s + ''; } catch (e) { print(e.name); } try { `${s}`; } catch (e) { print(e.name); } try { s++; } catch (e) { print(e.name); } print(typeof s);",
    "var o = { valueOf() { return {}; }, toString() { return {}; } }; try { o + 1; } catch (e) { print(e.name); } try { o < 1; } catch (e) { print(e.name); } try { [o].join(); } catch (e) { print(e.name); }",
    "function f(a = f2(), b) { function f2() { return 1; } return a; } try { print(f()); } catch (e) { print(e.name); } (function (...[a, b]) { print(a, b); })(1);",
    "try { eval('let q; var q;'); } catch (e) { print(e.name); } try { eval('break;'); } catch (e) { print(e.name); } try { new Function('a', 'a', '\"use strict\";'); } catch (e) { print(e.name); }",
    "var big = '9'.repeat(400); print(Number(big), BigInt(big) % 7n, (10n ** 400n).toString().length); try { 1n / 0n; } catch (e) { print(e.name); } try { 2n ** -1n; } catch (e) { print(e.name); }",
    "try { BigInt.asUintN(2 ** 53, 1n); } catch (e) { print(e.name); } print(BigInt.asIntN(64, -(2n ** 63n) - 1n), BigInt.asUintN(0, 5n)); try { 1n << (2n ** 64n); } catch (e) { print(e.name); }",
]


# ------------------------------------------------------------------------------------------------ builtin sweep, lexer edges, cache shapes
SWEEP = r"""
(function () {
  var seed = SEED >>> 0;
  function rnd(n) { seed = (Math.imul(seed, 1664525) + 1013904223) >>> 0; return (seed >>> 8) % n; }
  var fns = [], seen = [];
  function walk(o, path, d) {
    if ((typeof o !== 'object' && typeof o !== 'function') || o === null || seen.indexOf(o) >= 0 || d > 3) return;
    seen.push(o);
    var ks = Reflect.ownKeys(o);
    for (var i = 0; i < ks.length; i++) {
      var k = ks[i], desc = Reflect.getOwnPropertyDescriptor(o, k), name = path + '.' + String(k);
      if (name === 'globalThis.print' || /^globalThis\.__/.test(name)) continue;
      var cands = [desc.value, desc.get, desc.set];
      for (var j = 0; j < 3; j++) if (typeof cands[j] === 'function' && seen.indexOf(cands[j]) < 0) fns.push({ fn: cands[j], holder: o, name: name + ['', '(get)', '(set)'][j] });
      if (desc.value) walk(desc.value, name, d + 1);
    }
  }
  walk(globalThis, 'globalThis', 0);
  var dab = new ArrayBuffer(8), dta = new Uint8Array(dab); try { __detach(dab); } catch (e) {}
  var rp = Proxy.revocable({}, {}); rp.revoke();
  function* gen() { yield 1; }
  var vals = [undefined, null, true, -1, 0, -0, 1, 2, 255, 65536, 0xD800, 0xDFFF, 0x10FFFF, 0x110000, NaN, Infinity, -Infinity, 1.5, 10n, -1n, '', 'a', 'abc', '\uD800', 'a\uDC00b',
    '0', '-1', 'length', '__proto__', '$&$1', '(?<n>a)|', Symbol.iterator, Symbol('x'), {}, [], [1, 2, 3], [, 1], ['b', 'a'], function () { return 1; }, new Proxy({}, {}), new Proxy([], {}), rp.proxy,
    { valueOf: function () { throw 1; } }, { toString: function () { return {}; } }, { length: -1 }, { length: '2', 0: 'x', 1: 'y' }, { length: 65536 }, { then: function () { throw 2; } },
    new Uint8Array(4), new Float64Array(2), dta, dab, new ArrayBuffer(8, { maxByteLength: 16 }), new DataView(new ArrayBuffer(4)), new Date(NaN), new Date(0), /a/g, /(?:)/y,
    new Map([[1, 2]]), new Set([1]), new WeakMap(), Promise.resolve(1), gen(), (function () { return arguments; })(1, 2), class A { }, new Error('e'), Object.create(null), Object.freeze([1]),
    new String('s'), new Number(1), Object(1n), Object(Symbol('w')), globalThis, Array.prototype, Object.prototype];
  var n = 0;
  for (var i = LO; i < HI && i < fns.length; i++) {
    var f = fns[i];
    for (var c = 0; c < CALLS; c++) {
      var recv = [];
      for (var v = 0; v < vals.length; v++) { try { if (f.holder === vals[v] || (Object(vals[v]) === vals[v] ? f.holder.isPrototypeOf(vals[v]) : f.holder.isPrototypeOf(Object(vals[v])))) recv.push(vals[v]); } catch (e) {} }
      var thisv = (recv.length && rnd(4)) ? recv[rnd(recv.length)] : (rnd(3) ? f.holder : vals[rnd(vals.length)]);
      var args = [], na = rnd(4);
      for (var a = 0; a < na; a++) args.push(vals[rnd(vals.length)]);
      try { if (rnd(5) === 0) Reflect.construct(f.fn, args); else Reflect.apply(f.fn, thisv, args); } catch (e) {}
      n++;
    }
  }
  print('swept', Math.min(HI, fns.length) - LO, n, fns.length);
})();
"""

LEX_EDGES = []
for k in range(0, 13):
    LEX_EDGES.append("var r = /a/" + "dgimsuyvdgims"[:k] + ";")
    LEX_EDGES.append("/[/]\\//" + "gimsuyxq"[:k % 9] + ".test('')")
LEX_EDGES += ["0x", "0b", "0o", "0x_1", "1_", "1__0", "1e", "1e+", "1.e", ".e1", "0.0.0", "1n.x", "1.5n", "0x1n", "08n", "09.5", "0_1", "1_000_000n", "0b12", "0o8", "1e1000", "1e-1000", "0x" + "f" * 400, "1" * 400,
              "9" * 400 + "n", "'\\u{110000}'", "'\\u{}'", "'\\u{1F600}'", "'\\uD800'", "'\\uD83D\\uDE00'", "'\\x'", "'\\x1'", "'\\u12'", "'\\08'", "'\\8'", "'use strict'; '\\01'", "`\\u{110000}`", "`\\01`", "tag`\\u{110000}\\x`",
              "`${", "`${}`", "`${`${`${1}`}`}`", "`\\", "'\\", "'", "\"", "`", "/", "/*", "/**/ /", "/[", "/(?", "/a/\\u0067", "/\\", "/a\\\n/", "<!--", "-->", "#!x", "#", "#x", "#x in {}", "@", "\\", "\\u", "\\u{", "\\u{61}", "\\u0061\\u0062 = 1",
              "var \\u{1F600}", "var \\uD800", "var \\uD83D\\uDE00", "var a\\u200D", "var \\u{61}\\u{62}c = 1; abc", "a b", "'a b'", "﻿1", "1﻿", "  1", "᠎", "var ᠎", "x‌", "𠮷 = 1", "var 𠮷, \ud800",
              "1..toString()", "1.toString()", "1 .x", "a?.1:2", "a?.[", "a?.`x`", "new.target", "import.meta", "import(", "super()", "yield", "await", "async () =>", "async\n() => 1", "({ async *[Symbol.iterator]() {} })",
              "class A { static { await } }", "class A { #x; #x }", "class A { constructor(){} constructor(){} }", "({ __proto__: 1, __proto__: 2 })", "({ get a(){}, set a(v){} , a })", "for (let of of [])", "for (async of [])", "for (let in {})",
              "label: label: ;", "a: { b: { break a; } }", "if (1) function f(){}", "while (0) let\nx", "do x while (0) y", "return", "break", "continue", "let let", "let [", "const a", "var {", "function (", "function* (", "=>", "()=>", "(a, a) => 1",
              "'use strict'; (a, a) => 1", "'use strict'; with (a) b", "'use strict'; 010", "'use strict'; delete a", "'use strict'; eval = 1", "(", ")", "[", "]", "{", "}", "((((((((((((((((((((", "[[[[[[[[[[[[[[[[[[[[", "{{{{{{{{{{{{{{{{{{{{", "a" + "+a" * 300,
              "a" + ".b" * 300, "!" * 300 + "a", "`" + "${`" * 40, "f(" * 60, "x = " * 100 + "1", "[" + "," * 500 + "]", "({" + "a:1," * 300 + "})", "a ? " * 60 + "1" + " : 2" * 60, "'" + "\\u0061" * 300 + "'"]

IC_KINDS = ["data", "ro", "getter", "setter", "both", "absent", "proto-data", "proto-getter", "proto-setter", "proto-both"]


def ic_program(r):
    lines = ["var log = [];", "function mk(kind) { var p = {}, o = Object.create(p); switch (kind) {",
             " case 'data': o.x = 1; break; case 'ro': Object.defineProperty(o, 'x', { value: 2, writable: false, configurable: true }); break;",
             " case 'getter': Object.defineProperty(o, 'x', { get: function () { return 3; }, configurable: true }); break;",
             " case 'setter': Object.defineProperty(o, 'x', { set: function (v) { log.push('set' + v); }, configurable: true }); break;",
             " case 'both': Object.defineProperty(o, 'x', { get: function () { return 4; }, set: function (v) { log.push('SET' + v); }, configurable: true }); break;",
             " case 'proto-data': p.x = 5; break; case 'proto-getter': Object.defineProperty(p, 'x', { get: function () { return 6; }, configurable: true }); break;",
             " case 'proto-setter': Object.defineProperty(p, 'x', { set: function (v) { log.push('pset' + v); }, configurable: true }); break;",
             " case 'proto-both': Object.defineProperty(p, 'x', { get: function () { return 7; }, set: function (v) { log.push('PSET' + v); }, configurable: true }); break; }",
             " return o; }",
             "function rd(o) { return o.x; } function wr(o, v) { o.x = v; return o.x; } function rdk(o, k) { return o[k]; } function has(o) { return 'x' in o; } function del(o) { return delete o.x; }",
             "function srd(o) { 'use strict'; return o.x; } function swr(o, v) { 'use strict'; o.x = v; }",
             "function show(f) { try { print(String(f())); } catch (e) { print('E:' + (e && e.name)); } }"]
    objs = []
    for i in range(2 + r() % 4):
        k = IC_KINDS[r() % len(IC_KINDS)]
        objs.append("o%d" % i)
        lines.append("var o%d = mk('%s');" % (i, k))
    for _ in range(8 + r() % 14):
        o = objs[r() % len(objs)]
        k = r() % 12
        if k < 4:
            lines.append("show(function () { return rd(%s); });" % o)
        elif k < 6:
            lines.append("show(function () { return wr(%s, %d); });" % (o, r() % 9))
        elif k < 7:
            lines.append("show(function () { return srd(%s) + ':' + (swr(%s, %d), rdk(%s, 'x')); });" % (o, o, r() % 9, o))
        elif k < 8:
            lines.append("show(function () { return has(%s) + ':' + del(%s) + ':' + rd(%s); });" % (o, o, o))
        elif k < 9:
            lines.append("Object.defineProperty(%s, 'x', %s);" % (o, ["{ get: undefined, set: function (v) {}, configurable: true }", "{ value: 9, writable: true, configurable: true }",
                                                                       "{ get: function () { return 8; }, configurable: true }", "{ set: undefined, get: undefined, configurable: true }"][r() % 4]))
        elif k < 10:
            lines.append("Object.getPrototypeOf(%s).y%d = 1; delete Object.getPrototypeOf(%s).x;" % (o, r() % 3, o))
        elif k < 11:
            lines.append("Object.setPrototypeOf(%s, %s);" % (o, ["null", "{ x: 11 }", "Object.getPrototypeOf(%s)" % objs[r() % len(objs)], "new Proxy({}, {})"][r() % 4]))
        else:
            lines.append("Object.%s(%s);" % (["freeze", "seal", "preventExtensions"][r() % 3], o))
    lines.append("print(log.join());")
    return "\n".join(lines)


def mutate(r, src):
    toks = src.replace("(", " ( ").replace(")", " ) ").replace(";", " ; ").replace("{", " { ").replace("}", " } ").split(" ")
    toks = [t for t in toks if t != ""]
    n = 1 + r() % 4
    for _ in range(n):
        if not toks:
            break
        k = r() % 6
        i = r() % len(toks)
        if k == 0:
            del toks[i]
        elif k == 1:
            toks.insert(i, toks[r() % len(toks)])
        elif k == 2:
            toks[i] = TOKENS[r() % len(TOKENS)]
        elif k == 3:
            toks.insert(i, TOKENS[r() % len(TOKENS)])
        elif k == 4:
            j = r() % len(toks)
            toks[i], toks[j] = toks[j], toks[i]
        else:
            j = min(len(toks), i + 1 + r() % 6)
            toks[i:j] = toks[i:j] * 2
    return " ".join(toks)


def token_soup(r):
    return " ".join(TOKENS[r() % len(TOKENS)] for _ in range(1 + r() % 25))


def raw_bytes(r):
    n = r() % 40
    k = r() % 3
    if k == 0:
        return bytes(r() % 256 for _ in range(n))
    if k == 1:
        alpha = b"(){}[];,.=+-*/%<>!&|^~?:'\"`\\ \n\tabcxyz0123456789$_#@\xc3\xa9\xe2\x80\xa8\xf0\x9f\x98\x80\xed\xa0\x80\xff\x00"
        return bytes(alpha[r() % len(alpha)] for _ in range(n))
    s = token_soup(r).encode()
    if s:
        i = r() % len(s)
        s = s[:i] + bytes([r() % 256]) + s[i + 1:]
    return s


def run(ck):
    ck.trusted_base += [
        "the hand-written Lean model of value/operations.rs (Integer32 × Integer32 arms and their `*_fast` twins) and of "
        "vm/opcode/unary_ops/{increment,decrement}.rs; i32::checked_pow is modelled as a range check on the mathematical power",
        "everything else in C02 (lexer, parser, byte compiler, the other opcode handlers, builtins) is EXPLORED, not proved: "
        "catch_unwind around evaluations of byte strings, token mutations and generated programs on fresh and reused contexts",
    ]
    ck.prove("BoaVerif.C02.Theorems", driver="drv-c02")
    bins = ck.build_harness(["c02", "trace"])
    r = lib.rng(ck.seed)
    quick = ck.tier == "quick"

    # ---- (i) integer fast paths: model == engine (API and VM), on the whole edge grid + random pairs
    pairs = [(a, b) for a in EDGE for b in EDGE]
    for _ in range(3000 if quick else 200000):
        k = r() % 4
        a = (r() % (1 << 32)) - (1 << 31)
        b = (r() % (1 << 32)) - (1 << 31) if k == 0 else (r() % 67) - 33 if k == 1 else EDGE[r() % len(EDGE)] if k == 2 else (r() % 65536) - 32768
        pairs.append((a, b))
    reqs = []
    for a, b in pairs:
        for op in OPS2:
            if op == "pow" and abs(b) > 1100:
                continue
            reqs.append("op %s %d %d" % (op, a, b))
    for a in sorted(set(p[0] for p in pairs)):
        for op in OPS1:
            reqs.append("op %s %d 0" % (op, a))
    model = ck.driver("drv-c02", reqs)
    rc, out, err = ck.run_bin(bins["c02"], input="\n".join(reqs) + "\n")
    eng = out.split("\n")
    bad = drift = approx = 0
    kinds = {}
    if rc != 0 or len(eng) < len(reqs):
        ck.fail_input({"site": "int-ops-harness", "input": reqs[min(len(eng), len(reqs)) - 1], "expected": "an answer per request",
                       "actual": "rc=%s after %d of %d answers %s" % (rc, len(eng), len(reqs), err[-200:])})
    for q, m, e in zip(reqs, model, eng):
        _, op, a, b = q.split()
        want, kind = expected_from_model(m)
        kinds[kind] = kinds.get(kind, 0) + 1
        got = dict(p.split("=", 1) for p in e.split("|")) if "=" in e else {}
        for route, g in got.items():
            if g == "-":
                continue
            if g.startswith("panic") or g.startswith("err EnginePanic"):
                bad += 1
                ck.fail_input({"site": "int-op-panics", "input": "%s %s %s via %s" % (a, op, b, route), "expected": m, "actual": g, "oracle": "Lean C02 model"})
                continue
            if m.startswith("panic"):
                drift += 1
                ck.model_drift({"input": q, "model": m, "implementation": g})
                continue
            if want is None:
                # f64::powi results: ECMA-262 only asks for an implementation-approximated value; C02 asks that it IS a number
                if g == "other":
                    bad += 1
                    ck.fail_input({"site": "int-op-value", "input": "%s %s %s via %s" % (a, op, b, route), "expected": m + " (a number)", "actual": g})
                elif not pow_close(int(a), int(b), g):
                    approx += 1
                continue
            if g not in want:
                bad += 1
                ck.fail_input({"site": "int-op-value", "input": "%s %s %s via %s" % (a, op, b, route), "expected": m, "actual": g, "oracle": "Lean C02 model (exactness theorems)"})
            elif g.split()[0] != m.split()[0] and m.split()[0] in ("int", "num") and route == "api":
                # same number, other representation: the model no longer describes the code (not a violation by itself)
                drift += 1
                if drift <= 5:
                    ck.model_drift({"input": q, "model": m, "implementation": g, "note": "representation differs"})
    ck.oblige("correspondence:integer fast paths (JsValue API, VM opcode handlers) == Lean model on %d requests (%d operand pairs incl. the full %dx%d edge grid)"
              % (len(reqs), len(pairs), len(EDGE), len(EDGE)), "correspondence", bad == 0 and drift == 0, "%d wrong / %d drift" % (bad, drift) if bad or drift else None)

    # ---- (ii) exploration: nothing ends in a panic / abort / EnginePanic
    first_explored = len(ck.failing)
    inputs = []       # (kind, bytes, reuse)
    for s in NASTY:
        inputs.append(("nasty", s.encode(), False))
    base_progs = [jsgen.gen_program(r, 3 + r() % 2, strict=(r() % 5 == 0)) for _ in range(120 if quick else 3000)]
    for p in base_progs:
        inputs.append(("generated", p.encode(), r() % 4 == 0))
    for _ in range(400 if quick else 12000):
        inputs.append(("mutated", mutate(r, base_progs[r() % len(base_progs)] if r() % 3 else NASTY[r() % len(NASTY)]).encode(), r() % 5 == 0))
    for _ in range(300 if quick else 8000):
        inputs.append(("tokens", token_soup(r).encode(), r() % 5 == 0))
    for _ in range(300 if quick else 8000):
        inputs.append(("bytes", raw_bytes(r), False))
    for e in LEX_EDGES:
        inputs.append(("lexer-edge", e.encode("utf-8", "surrogatepass") if isinstance(e, str) else e, False))
        if quick is False or r() % 3 == 0:
            inputs.append(("lexer-edge", ("eval(%s)" % json.dumps(e)).encode("utf-8", "surrogatepass"), False))
    for _ in range(150 if quick else 4000):
        inputs.append(("cache-shapes", ic_program(r).encode(), False))
    nfn, step_, calls = 775, 25, (24 if quick else 160)
    for lo in range(0, nfn, step_):
        inputs.append(("builtin-sweep", ("var SEED = %d, LO = %d, HI = %d, CALLS = %d;" % (r() % (1 << 31), lo, lo + step_, calls) + SWEEP).encode("utf-8", "surrogatepass"), False))
    chunks = [inputs[i::16] for i in range(16)]
    outcomes = {}
    npanic = 0

    import subprocess
    from concurrent.futures import ThreadPoolExecutor

    def run_chunk2(chunk):
        src = []
        for i, (kind, b, reuse) in enumerate(chunk):
            src.append(("//// c%d%s %s" % (i, " reuse=1" if reuse else " reset=1", "loop=5000000 rec=300 budget=400000000" if kind == "builtin-sweep" else "loop=3000 rec=200 stack=20000 budget=400000")).encode())
            src.append(b.replace(b"\r", b" ").replace(b"\n//// ", b"\n// // "))
        p = subprocess.run([bins["trace"]], input=b"\n".join(src) + b"\n", capture_output=True, timeout=3000)
        return p.returncode, p.stdout.decode("utf-8", "replace"), p.stderr.decode("utf-8", "replace")[-300:]

    STUB = (b"Array.prototype.toLocaleString = function () { return ''; }; Object.getPrototypeOf(Int8Array).prototype.toLocaleString = function () { return ''; };\n")

    def run_chunk3(chunk):
        """run a chunk; when the process dies on a case, classify that case and go on with the rest in a new process"""
        pieces = []
        rest = chunk
        while rest:
            rc, out, err = run_chunk2(rest)
            pieces.append((rest, rc, out, err))
            if rc == 0:
                break
            answered = sum(1 for l in out.split("\n") if l.startswith("{"))
            if answered >= len(rest):
                break
            rest = rest[answered + 1:]
        return pieces

    with ThreadPoolExecutor(max_workers=16) as ex:
        nested = list(ex.map(run_chunk3, chunks))
    flat = [piece for pieces in nested for piece in pieces]
    for chunk, rc, out, err in flat:
        res = {}
        for l in out.split("\n"):
            if l.startswith("{"):
                try:
                    d = json.loads(l)
                    res[d["id"]] = d
                except ValueError:
                    pass
        for i, (kind, b, reuse) in enumerate(chunk):
            d = res.get("c%d" % i)
            text = b.decode("utf-8", "replace")
            if d is None:
                if rc != 0:
                    # the process died: the first case without an answer is the one that killed it
                    npanic += 1
                    site = "process-abort"
                    if "overflowed its stack" in err:
                        # is it the unbounded NATIVE recursion of toLocaleString over a cyclic structure (recorded finding)? Then the same
                        # input runs to an end when those two methods are replaced by stubs before anything else happens
                        hdr = b"//// x reset=1 " + (b"loop=5000000 rec=300 budget=400000000" if kind == "builtin-sweep" else b"loop=3000 rec=200 stack=20000 budget=400000") + b"\n"
                        p2 = subprocess.run([bins["trace"]], input=hdr + STUB + b.replace(b"\r", b" ") + b"\n", capture_output=True, timeout=3000)
                        if p2.returncode == 0:
                            site = "native-recursion-unbounded:toLocaleString"
                    ck.fail_input({"site": site, "input": text, "input_hex": b.hex(), "expected": "value | exception | limit error", "actual": "rc=%s %s" % (rc, err)})
                    break
                continue
            c = d["completion"]
            cls = "panic" if c.startswith("panic") else "engine-panic" if "EnginePanic" in c or "EnginePanic" in d.get("jobs", "") else \
                "limit" if ("RuntimeLimit" in c or "NoInstructions" in c) else "syntax" if c == "err SyntaxError" else "throw" if c.startswith("err") else "value"
            outcomes[(kind, cls)] = outcomes.get((kind, cls), 0) + 1
            if cls in ("panic", "engine-panic"):
                npanic += 1
                site = site_of(c)
                if "index out of bounds" in c:
                    # does the failure need the inline caches? (the stale prototype entry recorded under C06 fails only with them on):
                    # alone in a fresh context the input must panic with the caches on and must not with them off
                    p1 = subprocess.run([bins["trace"]], input=b"//// x loop=3000 rec=200 stack=20000 budget=400000\n" + b + b"\n", capture_output=True, timeout=600)
                    p2 = subprocess.run([bins["trace"]], input=b"//// x ic=0 loop=3000 rec=200 stack=20000 budget=400000\n" + b + b"\n", capture_output=True, timeout=600)
                    if b'"completion":"panic index out of bounds' in p1.stdout and b'"completion":"panic' not in p2.stdout and p2.returncode == 0:
                        site = "panic-only-with-inline-caches:index out of bounds"
                ck.fail_input({"site": site, "input": text, "input_hex": b.hex(), "reuse": reuse, "expected": "value | exception | limit error", "actual": c})
    new_fail = sum(1 for c in ck.failing[first_explored:] if not ck.match_known(c))
    ck.oblige("exploration:no panic / abort / EnginePanic on %d inputs (nasty %d, generated, token-mutated, token soup, raw bytes; fresh and reused contexts)"
              % (len(inputs), len(NASTY)), "exploration", new_fail == 0, "%d internal failures not listed as known findings" % new_fail if new_fail else None)
    ck.coverage.update({"pow_results_further_than_1e-12_from_the_real_power": approx, "int_requests": len(reqs), "int_result_kinds": kinds, "explored_inputs": len(inputs),
                        "outcomes": {"%s/%s" % k: v for k, v in sorted(outcomes.items())}})
    ck.finish()


def site_of(completion):
    import re
    m = re.sub(r"[0-9]+", "N", completion)
    return "internal-failure:" + m[:90]
