"""C07 — every host entry leaves the VM balanced and the context reusable.
tie: correspondence through the boa_verif hooks: (i) after EVERY host entry of generated histories the real frame and
value-stack depths (vm_depths) must be what the model's theorem `balanced` says — unchanged; (ii) snapshots of the real
frame chain taken by a native `probe()` at arbitrary nesting depths must satisfy the laws the model's push_frame
establishes (rp = fp + argc + 2, well-formed chain) — checked by the Lean driver; (iii) a context that survived failing
entries answers a fixed battery exactly like a context that only ran the successful entries."""
import lib

DEFS = r"""
function ok(a){ return (a|0) + 1; }
function thrower(a,b,c){ throw new Error('T'); }
function deep(n){ return deep(n+1) + 1; }
function loopy(){ for(;;){} }
function C(a){ this.a = a; if (a > 5) throw 1; }
function natThrow(){ return [1,2,3].map(function(x){ if (x == 2) throw 7; return x; }); }
function natDeep(){ return [1].map(function(){ return deep(0); }); }
function argThrow(z){ try { ok(1, 2, z.x); } catch (e) { return 'c'; } return 'n'; }
function argThrowLoop(){ for (var i = 0; i < 200; i++) { try { ok(1, 2, null.x); } catch (e) {} } return i; }
function calleeThrowLoop(){ for (var i = 0; i < 200; i++) { try { thrower(1, 2, 3); } catch (e) {} } return i; }
function nested(n){ probe(); if (n > 0) return nested(n - 1) + 1; return ok(1); }
function finallyer(){ try { return thrower(); } finally { probe(); } }
function getterObj(){ var o = { get x(){ return deep(0); } }; return o.x; }
function proxyer(){ return new Proxy({}, { get(){ throw 3; } }).q; }
function* gen(){ yield 1; throw 2; }
function genUse(){ var it = gen(); it.next(); try { it.next(); } catch (e) { return 'g' + e; } }
function evalThrow(){ return eval('thrower()'); }
function reent(){ try { reenter('thrower()'); } catch (e) { return 'r'; } }
function reentLimit(){ return reenter('deep(0)'); }
function applyer(){ return ok.apply(null, [1]) + thrower.bind(null, 1).call(null); }
class K { constructor(a){ if (a > 5) throw new RangeError('k'); this.a = a; } }
class L extends K { constructor(a){ probe(); super(a); } }
function newer(a){ return new L(a).a; }
async function asy(a){ await null; if (a > 5) throw 9; return a; }
function jobber(a){ asy(a).then(function(v){ print('then ' + v); }, function(e){ print('rej ' + e); }); Promise.resolve().then(function(){ return deep(0); }); return 1; }
function genRet(){ var it = gen(); it.next(); return JSON.stringify(it.return(7)) + JSON.stringify(gen().next()); }
function asyOk(){ (async function(){ return 42; })().then(function(v){ print('r2 ' + v); }, function(e){ print('rej2 ' + e); }); asy(2).then(function(v){ print('res ' + v); }, function(e){ print('rej ' + e); }); return 0; }
function json(){ try { JSON.parse('{bad'); } catch (e) { return JSON.stringify({a:[1,{b:2}]}); } }
"""
BATTERY2 = "var itb = gen(); itb.next(); print(JSON.stringify(itb.return(7))); var itc = gen(); print(JSON.stringify(itc.next())); asy(2).then(function(v){ print('res ' + v); }, function(e){ print('rej ' + e); }); (async function(){ return 42; })().then(function(v){ print('r2 ' + v); }, function(e){ print('rej2 ' + e); });"
BATTERY = "print([ok(1), argThrow(null), genUse(), json(), newer(2), [3,1,2].sort().join(), typeof deep, (function(){ try { thrower(); } catch (e) { return e.message; } })()].join(' '));"

ENTRIES = [
    ("call ok 1", True), ("call thrower 1 2 3", False), ("call deep 0", False), ("call loopy", False), ("construct C 9", False),
    ("construct C 1", True), ("call natThrow", False), ("call natDeep", False), ("call argThrow 0", True), ("call argThrowLoop", True),
    ("call calleeThrowLoop", True), ("call nested 5", True), ("call finallyer", False), ("call getterObj", False), ("call proxyer", False),
    ("call genUse", True), ("call evalThrow", False), ("call reent", True), ("call reentLimit", False), ("call applyer", False),
    ("call newer 9", False), ("call newer 1", True), ("construct K 9", False), ("construct L 3", True), ("call jobber 9", True),
    ("call jobber 1", True), ("jobs", True), ("call json", True), ("call notdefined", False), ("construct ok 1", True),
    ("call genRet", True), ("call genRet", True), ("ASYNC-UNIT", True), ("ASYNC-UNIT", True),
]
# entries whose answer must not depend on what the context went through before (no persistent effects, no pending jobs)
IMPURE = {"jobs", "call jobber 9", "call jobber 1"}
EVALS = [
    ("thrower(1,2,3)", False), ("for(;;){}", False), ("deep(0)", False), ("ok(41)", True), ("nested(3)", True),
    ("try { deep(0) } catch (e) { print('caught') } finally { print('fin') }", False), ("syntax error here (", False),
    ("var it2 = gen(); it2.next(); it2.next()", False), ("new L(7)", False), ("[1,2,3].forEach(function(x){ if (x > 1) throw x })", False),
    ("Promise.reject(1); 5", True), ("(function(){ try { thrower() } finally { probe() } })()", False), ("argThrowLoop() + calleeThrowLoop()", True),
]


def hexs(s):
    return s.encode().hex()


def gen_history(r, n):
    h = []
    for _ in range(n):
        if r() % 3 == 0:
            src, ok = EVALS[r() % len(EVALS)]
            h.append(("eval " + hexs(src), ok))
        else:
            e = ENTRIES[r() % len(ENTRIES)]
            if e[0] == "ASYNC-UNIT":
                h += [("jobs", True), ("call asyOk", True), ("jobs!", True)]
            else:
                h.append(e)
    return h


def run(ck):
    ck.trusted_base += [
        "boa_verif hooks vm_depths / vm_snapshot (core/engine/src/verif.rs)",
        "modelled, not verified: the environment chain, generator stack swapping (frames with REGISTERS_ALREADY_PUSHED), the shadow "
        "stack; native functions are represented by their effect on the frame chain only",
    ]
    ck.prove("BoaVerif.C07.Theorems", driver="drv-c07")
    bins = ck.build_harness(["c07"])
    r = lib.rng(ck.seed)
    quick = ck.tier == "quick"
    hists = [gen_history(r, 10 + r() % 30) for _ in range(60 if quick else 1500)]
    lines = []
    meta = []   # (history index, kind)
    for hi, h in enumerate(hists):
        limits = ["limits 200 40 3000", "limits 50 10 1500", "limits 1000 100 20000", "limits 5 3 600"][r() % 4]
        for variant in ("full", "okonly"):
            lines.append("fresh"); meta.append((hi, variant, "fresh"))
            lines.append("eval " + hexs(DEFS)); meta.append((hi, variant, "defs"))
            lines.append(limits); meta.append((hi, variant, "limits"))
            for op, ok in h:
                if variant == "okonly" and not ok:
                    continue
                lines.append(op.rstrip("!")); meta.append((hi, variant, "entry", op, limits))
            lines.append("limits 100000 400 100000"); meta.append((hi, variant, "limits"))
            lines.append("eval " + hexs(BATTERY)); meta.append((hi, variant, "battery"))
            lines.append("eval " + hexs(BATTERY2)); meta.append((hi, variant, "battery2"))
            lines.append("jobs"); meta.append((hi, variant, "battery3"))
    # per-entry oracle: the same entry on a fresh context under the same limits
    iso_keys = []
    for limits in ["limits 200 40 3000", "limits 50 10 1500", "limits 1000 100 20000", "limits 5 3 600"]:
        for op in [e for e, _ in ENTRIES if e not in IMPURE and e != "ASYNC-UNIT"] + ["eval " + hexs(x) for x, _ in EVALS] + ["ASYNC"]:
            lines.append("fresh"); meta.append((-1, "iso", "fresh"))
            lines.append("eval " + hexs(DEFS)); meta.append((-1, "iso", "defs"))
            lines.append(limits); meta.append((-1, "iso", "limits"))
            if op == "ASYNC":
                lines.append("call asyOk"); meta.append((-1, "iso", "skip"))
                lines.append("jobs"); meta.append((-1, "iso", "isoentry", "jobs!", limits))
            else:
                lines.append(op); meta.append((-1, "iso", "isoentry", op, limits))
    rc, out, err = ck.run_bin(bins["c07"], input="\n".join(lines) + "\n", timeout=3000)
    ans = out.split("\n")[:-1]
    if rc != 0 or len(ans) != len(lines):
        idx = len(ans)
        ck.fail_input({"site": "engine-crash", "input": lines[max(0, idx - 5):idx + 1], "expected": "an answer", "actual": "rc=%s %s" % (rc, err[-300:])})
        lines, meta = lines[:idx], meta[:idx]
    snaps = []
    bad_depth = 0
    kinds = {}
    battery = {}
    entries = 0
    panics = 0
    for q, a, m in zip(lines, ans, meta):
        parts = a.split(" | ")
        comp = parts[0]
        printed = parts[1][4:] if len(parts) > 1 else ""
        depths = parts[2] if len(parts) > 2 else ""
        for p in printed.split(";"):
            if p.startswith("probe "):
                snaps.append("snap " + p[6:])
        if m[2] in ("entry", "battery", "battery2", "battery3", "defs"):
            entries += 1
            key = comp.split(":")[0].split(" ")[0] + " " + (comp.split(" ")[1].split(":")[0] if " " in comp else "")
            kinds[key] = kinds.get(key, 0) + 1
            if comp.startswith("panic"):
                panics += 1
                ck.fail_input({"site": "host-entry-panic", "input": {"history": hists[m[0]], "entry": q}, "expected": "a value, an exception or a limit error",
                               "actual": comp})
            if depths != "frames=1 stack=0":
                bad_depth += 1
                if bad_depth <= 5:
                    ck.fail_input({"site": "vm-depths", "input": {"history": [o for o, _ in hists[m[0]]], "entry": q if not q.startswith("eval") else "eval " + bytes.fromhex(q[5:]).decode()[:80], "variant": m[1]},
                                   "expected": "frames=1 stack=0 (theorem `balanced`: depths after a host entry = depths before)", "actual": depths + " after " + comp})
        if m[2].startswith("battery"):
            battery[(m[0], m[1])] = battery.get((m[0], m[1]), ()) + (comp, printed)
    def strip(printed):
        return ";".join(x for x in printed.split(";") if not x.startswith("probe "))
    iso = {}
    for q, a, m in zip(lines, ans, meta):
        if m[2] == "isoentry":
            parts = a.split(" | ")
            iso[(m[3], m[4])] = (parts[0], strip(parts[1][4:]))
    reuse_bad = 0
    for q, a, m in zip(lines, ans, meta):
        if m[2] == "entry" and m[0] >= 0 and (m[3], m[4]) in iso and m[3] not in IMPURE:
            parts = a.split(" | ")
            got = (parts[0], strip(parts[1][4:]))
            if got != iso[(m[3], m[4])]:
                reuse_bad += 1
                if reuse_bad <= 3:
                    ck.fail_input({"site": "context-reuse", "input": {"history": [o if not o.startswith("eval") else "eval " + bytes.fromhex(o[5:]).decode()[:60] for o, _ in hists[m[0]]],
                                                                       "entry": m[3] if not m[3].startswith("eval") else "eval " + bytes.fromhex(m[3][5:]).decode()[:60], "limits": m[4]},
                                   "expected": iso[(m[3], m[4])], "actual": got, "oracle": "the same entry on a fresh context under the same limits"})
    for hi in range(len(hists)):
        a, b = battery.get((hi, "full")), battery.get((hi, "okonly"))
        if a is None or b is None:
            continue
        if a != b:
            reuse_bad += 1
            if reuse_bad <= 3:
                ck.fail_input({"site": "context-reuse", "input": {"history": [o if not o.startswith("eval") else "eval " + bytes.fromhex(o[5:]).decode()[:60] for o, _ in hists[hi]]},
                               "expected": b, "actual": a, "oracle": "a fresh context that ran only the successful entries"})
    # (ii) frame-chain laws on the snapshots
    model = ck.driver("drv-c07", snaps) if snaps else []
    bad_snap = [s for s, m in zip(snaps, model) if m != "wf"]
    for s in bad_snap[:3]:
        ck.model_drift({"input": s, "model": "push_frame laws: rp = fp + argc + 2, chain well-formed", "implementation": "violated"})
    ck.oblige("correspondence:%d VM snapshots satisfy the model's frame laws" % len(snaps), "correspondence", not bad_snap)
    sample = ck.driver("drv-c07", ["entry 0 2 5", "entry 7 0 1"])
    ck.oblige("model:hostEntry is balanced on the driver's sample behaviour", "correspondence", sample == ["frames=0 stack=0", "frames=0 stack=7"])
    depth_hist = {}
    for s in snaps:
        d = len(s.split()) - 3
        depth_hist[d] = depth_hist.get(d, 0) + 1
    ck.coverage.update({
        "evaluations": entries,
        "histories": len(hists),
        "distinct_nontrivial": len(set(tuple(o for o, _ in h) for h in hists)),
        "rule": "a history = 10..40 host entries on one context (eval / JsObject::call / construct / run_jobs) over functions that return, throw, "
                "recurse past the recursion limit, loop past the loop limit, throw inside natives (map, getter, proxy, JSON, eval, re-entrant "
                "eval from a native), inside generators, class constructors and promise jobs, with pending call arguments, under 4 limit "
                "settings; depths checked after every entry; each history is run again with the failing entries removed and the final battery compared",
        "completion_kinds": kinds, "probe_snapshots": len(snaps), "probe_frame_depths": depth_hist,
        "depth_violations": bad_depth, "reuse_violations": reuse_bad,
        "samples": [[o if not o.startswith("eval") else "eval " + bytes.fromhex(o[5:]).decode()[:60] for o, _ in hists[0]][:10]],
        "partial": ["generator resumption from the host (JsGenerator API) and module evaluation are not driven by the harness"],
    })
