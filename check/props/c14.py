"""C14 — array behaviour is independent of the internal element storage.
tie: (i) correspondence of the storage layer: random insert/remove/get/has/dump sequences on a real PropertyMap vs the
Lean model (incl. which of the five variants is active); (ii) the property's own differential at the JavaScript level:
the same abstract content built through recipes that land in different storage variants, then the same operation
sequence applied to each; structural dumps must coincide after every step (and with the array-like `.call` form)."""
import json

import lib

VALS = ["1", "2", "-3", "0", "1.5", "-0", "NaN", "'s'", "'t'", "O1", "undefined", "null", "2147483647", "2147483648", "1e21", "-2147483648"]

PRELUDE = r"""
var O1 = {toString(){ return 'O1'; }}, O2 = {toString(){ return 'O2'; }};
function sv(x) {
  if (x === O1) return 'O1'; if (x === O2) return 'O2';
  if (typeof x === 'number') return Object.is(x, -0) ? '-0' : String(x);
  if (typeof x === 'string') return JSON.stringify(x);
  if (Array.isArray(x)) return '[' + dumpA(x) + ']';
  return String(x);
}
function dumpA(a) {
  var out = [], n = a.length;
  for (var i = 0; i < Math.min(n, 40); i++) {
    var d = Object.getOwnPropertyDescriptor(a, i);
    if (!d) { out.push('_'); continue; }
    var at = (d.writable === false ? 'w' : '') + (d.enumerable ? '' : 'e') + (d.configurable ? '' : 'c');
    out.push(('value' in d ? sv(d.value) : 'acc') + (at ? '!' + at : ''));
  }
  return 'len=' + n + ' [' + out.join(',') + '] keys=' + Reflect.ownKeys(a).filter(function(k){return k!=='length';}).join('|');
}
function E(f){ try { return sv(f()); } catch (e) { return 'throw ' + (e && e.constructor ? e.constructor.name : e); } }
"""


def build_recipes(content):
    """JS statements building array `a` with the given content (list of value strings or None for holes) through
    routes that end in different storage variants"""
    n = len(content)
    lit = "[" + ",".join(("" if v is None else v) for v in content) + ("," if n and content[-1] is None else "") + "]"
    recipes = {}
    recipes["literal"] = "a = %s;" % lit
    asc = "a = [];" + "".join("a[%d] = %s;" % (i, v) for i, v in enumerate(content) if v is not None) + "a.length = %d;" % n
    recipes["ascending"] = asc
    desc = "a = [];" + "".join("a[%d] = %s;" % (i, content[i]) for i in range(n - 1, -1, -1) if content[i] is not None) + "a.length = %d;" % n
    recipes["descending"] = desc
    over = "a = [];" + "".join("a.push(0);" for _ in range(n)) + "".join("a[%d] = %s;" % (i, v) for i, v in enumerate(content) if v is not None) \
        + "".join("delete a[%d];" % i for i, v in enumerate(content) if v is None)
    recipes["ints-then-overwrite"] = over
    det = "a = new Array(%d);" % n + "".join(
        "Object.defineProperty(a, '%d', {value: 0, writable: false, enumerable: true, configurable: true});"
        "Object.defineProperty(a, '%d', {value: %s, writable: true});" % (i, i, v) for i, v in enumerate(content) if v is not None)
    recipes["descriptor-detour"] = det
    dbl = "a = [];" + "".join("a.push(0.5);" for _ in range(n)) + "".join("a[%d] = %s;" % (i, v) for i, v in enumerate(content) if v is not None) \
        + "".join("delete a[%d];" % i for i, v in enumerate(content) if v is None)
    recipes["doubles-then-overwrite"] = dbl
    return recipes


def gen_op(r, n):
    v = VALS[r() % len(VALS)]
    i = r() % (n + 3)
    k = r() % 100
    if k < 11:
        return "a[%d] = %s" % (i, v)
    if k < 14:
        return "a[%d]" % (r() % (n + 5))        # keyed read through the VM (dense fast path; past the end the prototype chain decides)
    if k < 20:
        return "delete a[%d]" % i
    if k < 26:
        return "a.length = %d" % (r() % (n + 4))
    if k < 34:
        return "a.push(%s)" % v
    if k < 39:
        return "a.pop()"
    if k < 44:
        return "a.shift()"
    if k < 49:
        return "a.unshift(%s)" % v
    if k < 55:
        return "a.splice(%d, %d%s)" % (r() % (n + 1), r() % 3, (", " + v) if r() % 2 else "")
    if k < 59:
        return "a.reverse()"
    if k < 63:
        return "a.fill(%s, %d, %d)" % (v, r() % (n + 1), r() % (n + 2))
    if k < 66:
        return "a.copyWithin(%d, %d)" % (r() % (n + 1), r() % (n + 1))
    if k < 70:
        return "a.indexOf(%s)" % v
    if k < 74:
        return "a.includes(%s)" % v
    if k < 78:
        return "a.join('-')"
    if k < 81:
        return "a.slice(%d, %d)" % (r() % (n + 1), r() % (n + 2))
    if k < 84:
        return "a.concat([%s], a)" % v
    if k < 86:
        return "a.flat()"
    if k < 89:
        return "a.sort(function(x, y) { return String(x) < String(y) ? -1 : String(x) > String(y) ? 1 : 0; })"
    if k < 92:
        return "Object.defineProperty(a, '%d', {value: %s, writable: %s, enumerable: %s, configurable: true})" % (i, v, ["true", "false"][r() % 2], ["true", "false"][r() % 2])
    if k < 94:
        return "Object.keys(a).join()"
    if k < 96:
        return "a.map(function(x) { return x; })"
    if k < 97:
        # a read-only `length` keeps the array in its dense storage (freeze / seal move it to sparse storage first): every method
        # that ends with Set(O, "length", …) must then throw on every storage form alike
        return ["Object.freeze(a)", "Object.defineProperty(a, 'length', {writable: false})", "Object.preventExtensions(a)"][r() % 3]
    if k < 99:
        return "a.lastIndexOf(%s)" % v
    return "a.at(%d)" % (i - 1)


def storage_layer_requests(r, n_seq, n_ops):
    lines = []
    for _ in range(n_seq):
        lines.append("reset")
        if r() % 2:
            # a dense prefix (ascending keys from 0, one kind of value): the dense variants and their transitions on overwrite are
            # otherwise rare, because the very first insert has to hit key 0
            kind = ["i", "i", "f", "d", "o"][r() % 5]
            for j in range(1 + r() % 4):
                lines.append("insert %d %s:%d 111" % (j, kind, r() % 4))
        for _ in range(n_ops):
            c = r() % 100
            k = r() % 6 if r() % 12 else r() % 40
            if c < 50:
                kind = r() % 10
                v = ["i:%d" % (r() % 5), "i:%d" % (r() % 5), "i:-2", "f:%d" % (r() % 4), "d:%d" % (r() % 3), "d:%d" % (r() % 3),
                     "o:%d" % (r() % 3), "o:1", "acc" if r() % 4 == 0 else "i:3", "i:7"][kind]
                attrs = "111" if r() % 25 else ["011", "101", "110", "000"][r() % 4]
                if v == "acc":
                    attrs = "0" + attrs[1:]
                lines.append("insert %d %s %s" % (k, v, attrs))
            elif c < 70:
                lines.append("remove %d" % k)
            elif c < 82:
                lines.append("get %d" % k)
            elif c < 90:
                lines.append("has %d" % k)
            else:
                lines.append("dump")
        lines.append("dump")
    return lines


def js_level_requests(r, n_seq, n_ops):
    """the JS-level mode of the line protocol: `a[k] = v`, `a[k]`, `a.push(v)`, `a.shift()`, `delete a[k]`, a read-only `length` run through the VM
    and the builtins on a real array; the engine answers with the storage it ends up with (variant, length, contents)"""
    lines = []
    for _ in range(n_seq):
        lines.append("jsreset")
        n = 0
        for _ in range(n_ops):
            c = r() % 100
            v = ["i:%d" % (r() % 5), "i:%d" % (r() % 5), "i:-2", "f:%d" % (r() % 4), "f:%d" % (r() % 4), "d:%d" % (r() % 3), "o:%d" % (r() % 3)][r() % 7]
            k = r() % (n + 2) if r() % 10 else r() % 12
            if c < 30:
                lines.append("apush %s" % v)
                n += 1
            elif c < 58:
                lines.append("aset %d %s" % (k, v))
                n = max(n, k + 1)
            elif c < 72:
                lines.append("aget %d" % k)
            elif c < 90:
                lines.append("ashift")
                n = max(0, n - 1)
            elif c < 93:
                lines.append("alock")       # `length` becomes read-only; the array stays in its storage variant
            else:
                lines.append("adel %d" % k)
    return lines


def run(ck):
    ck.trusted_base += [
        "modelled, not verified: hashbrown/FxHashMap (as association lists; iteration order is outside the abstraction and the engine "
        "sorts index keys), ThinVec; the Array.prototype algorithms themselves are compared across storage forms, not modelled in Lean",
    ]
    ck.prove("BoaVerif.C14.Theorems", driver="drv-c14")
    # the fast paths that bypass the storage API (VM dense get/set, Array.prototype.shift) and the generic shift algorithm
    ck.prove("BoaVerif.C14.FastPaths")
    bins = ck.build_harness(["c14", "trace"])
    r = lib.rng(ck.seed)
    quick = ck.tier == "quick"
    # ---- (i) storage layer
    lines = storage_layer_requests(r, 300 if quick else 6000, 30)
    n_storage = len(lines)
    lines += js_level_requests(r, 200 if quick else 4000, 25)
    rc, out, err = ck.run_bin(bins["c14"], input="\n".join(lines) + "\n")
    impl = out.split("\n")[:-1]
    if rc != 0 or len(impl) != len(lines):
        ck.fail_input({"site": "c14-harness", "input": lines[max(0, len(impl) - 10):len(impl) + 1], "expected": "an answer",
                       "actual": "rc=%s %s" % (rc, err[-300:])})
        lines = lines[:len(impl)]
    model = ck.driver("drv-c14", lines)
    bad = 0
    variants = {}
    start = 0
    for i, (q, a, m) in enumerate(zip(lines, impl, model)):
        if q in ("reset", "jsreset"):
            start = i
        if " v=" in a:
            variants[a.split(" v=")[1]] = variants.get(a.split(" v=")[1], 0) + 1
        if a != m:
            bad += 1
            if bad <= 5:
                # the model is proved to refine the finite map, so a disagreement on observable content is a failing input
                ck.fail_input({"site": "PropertyMap" if i < n_storage else "array-fast-path", "input": lines[start + 1:i + 1], "expected": m, "actual": a,
                               "oracle": "Lean model of IndexedProperties (proved to refine the index -> descriptor map)" if i < n_storage else
                                         "Lean model of the VM's dense get/set paths and of Array.prototype.shift (fast path and generic algorithm, proved to denote the same map)"})
    ck.oblige("correspondence:PropertyMap==C14 model on %d operations" % n_storage, "correspondence", True)
    ck.oblige("correspondence:real array (VM SetPropertyByValue / GetPropertyByValue, push, shift, delete) == C14 JS-level model on %d operations: storage variant, length, contents"
              % (len(lines) - n_storage), "correspondence", True)
    # ---- (ii) JS level: same content, different storage, same operations
    cases = []
    for _ in range(120 if quick else 2500):
        n = r() % 7
        content = [None if r() % 5 == 0 else VALS[r() % len(VALS)] for _ in range(n)]
        ops = [gen_op(r, n) for _ in range(4 + r() % 10)]
        # one case in four runs with an index property on Object.prototype (inherited by arrays and array-likes alike):
        # a read of a hole or past the end must find it whatever the storage form
        proto = ""
        if r() % 4 == 0:
            pi = r() % (n + 3)
            proto = "Object.prototype[%d] = 'OP'; " % pi
            for _ in range(3):
                ops.insert(r() % (len(ops) + 1), "a[%d]" % pi)
        cases.append((content, ops, proto))
    src = []
    recipe_names = None
    for ci, (content, ops, proto) in enumerate(cases):
        recipes = build_recipes(content)
        recipe_names = list(recipes)
        for rn, build in recipes.items():
            src.append("//// c%d.%s" % (ci, rn))
            src.append(PRELUDE)
            src.append(proto + "var a; " + build)
            src.append("print(__storage(a) + ' ' + dumpA(a));")
            for o in ops:
                src.append("print(E(function(){ return %s; }) + ' => ' + dumpA(a));" % o)
            src.append("print(__storage(a));")
        # the array-like form: the same methods through Array.prototype.*.call on a plain object
        src.append("//// c%d.arraylike" % ci)
        src.append(PRELUDE)
        src.append(proto + "var b; " + recipes["ascending"].replace("a = [];", "b = {length: 0};").replace("a[", "b[").replace("a.length", "b.length"))
        for o in ops:
            if o.startswith("a.") and not o.startswith(("a.length", "a.at", "a.concat", "a.flat")):
                meth = o[2:o.index("(")]
                args = o[o.index("(") + 1:-1]
                src.append("print('L ' + E(function(){ return Array.prototype.%s.call(b%s); }));" % (meth, (", " + args.replace("a)", "b)")) if args else ""))
            else:
                break
    rc, out, err = ck.run_bin(bins["trace"], input="\n".join(src) + "\n")
    res = {}
    for l in out.splitlines():
        if l.startswith("{"):
            j = json.loads(l)
            res[j["id"]] = j
    if rc != 0:
        ck.fail_input({"site": "engine-crash", "input": "c14 js batch", "expected": "traces", "actual": "rc=%s %s" % (rc, err[-300:])})
    forms_start, forms_end = {}, {}
    jbad = 0
    steps = 0
    for ci, (content, ops, proto) in enumerate(cases):
        base = res.get("c%d.literal" % ci)
        if base is None:
            continue
        b_out = [x.split(" ", 1)[1] if i == 0 else x for i, x in enumerate(base["out"][:-1])]
        for rn in recipe_names:
            got = res.get("c%d.%s" % (ci, rn))
            if got is None or not got["out"]:
                continue
            forms_start[got["out"][0].split(" ")[0]] = forms_start.get(got["out"][0].split(" ")[0], 0) + 1
            forms_end[got["out"][-1]] = forms_end.get(got["out"][-1], 0) + 1
            g_out = [x.split(" ", 1)[1] if i == 0 else x for i, x in enumerate(got["out"][:-1])]
            steps += len(g_out)
            if g_out != b_out or got["completion"] != base["completion"]:
                jbad += 1
                if jbad <= 5:
                    k = next((i for i in range(min(len(g_out), len(b_out))) if g_out[i] != b_out[i]), min(len(g_out), len(b_out)))
                    ck.fail_input({"site": "array-storage-differential", "input": {"content": content, "ops": ops[:k], "recipe": rn,
                                                                                  "storage_at_start": got["out"][0].split(" ")[0]},
                                   "expected": b_out[k] if k < len(b_out) else base["completion"],
                                   "actual": g_out[k] if k < len(g_out) else got["completion"],
                                   "oracle": "the same content built as an array literal (%s)" % base["out"][0].split(" ")[0]})
        # array-like: method results (first token after 'L ') must equal the array's results for the same prefix of ops
        al = res.get("c%d.arraylike" % ci)
        if al:
            for k, line in enumerate(al["out"]):
                want = b_out[k + 1].split(" => ")[0] if k + 1 < len(b_out) else None
                if want is not None and line[2:] != want and not want.startswith("[") and "len=" not in want:
                    jbad += 1
                    ck.fail_input({"site": "array-vs-arraylike", "input": {"content": content, "ops": ops[:k + 1]},
                                   "expected": want, "actual": line[2:], "oracle": "the same method applied to the real array"})
                    break
    ck.coverage.update({
        "evaluations": len(lines) + steps,
        "distinct_nontrivial": len(set(q for q in lines if q.startswith(("insert", "remove")))) + len(cases),
        "rule": "(i) %d storage-layer operations on a real PropertyMap (index keys 0..5 mostly, up to 39; ints, integral doubles, doubles, "
                "strings, accessors, non-default attributes) compared line by line with the Lean model incl. the active variant; "
                "(ii) %d contents (with holes, -0, NaN, large ints, strings, objects) x %d construction recipes x random sequences of "
                "%d kinds of array operations, structural dump after every step compared across recipes and with the array-like form"
                % (len(lines), len(cases), len(recipe_names or []), 30),
        "storage_variants_after_operations": variants,
        "js_storage_at_start": forms_start, "js_storage_at_end": forms_end,
        "js_cases": len(cases), "js_disagreements": jbad,
        "samples": [lines[1:8], {"content": cases[0][0], "ops": cases[0][1]}],
        "partial": ["`keys_sorted_independent_of_storage` and the well-formedness (unique keys) invariant are not proved yet; "
                    "the Array.prototype algorithms are compared across storage forms, not specified in Lean"],
    })
