"""C11 — string behaviour depends only on the code-unit sequence.
tie: correspondence — real boa_string values built through every constructor vs the Lean model
(same variant-wise case splits) and vs the Lean Spec functions on plain code-unit arrays."""
import itertools
import re

import lib

ALPHA = [0x20, 0x41, 0x7F, 0x80, 0xA0, 0xFF, 0x3C0, 0xFEFF, 0xD800, 0xDC00, 0xD83D]  # ASCII, Latin-1 high, BMP, ws, lone surrogates
CTORS = ["seq", "intern", "slice", "concat", "builder", "str"]


def valid_text(u):
    i = 0
    while i < len(u):
        c = u[i]
        if 0xD800 <= c <= 0xDBFF:
            if i + 1 < len(u) and 0xDC00 <= u[i + 1] <= 0xDFFF:
                i += 2
                continue
            return False
        if 0xDC00 <= c <= 0xDFFF:
            return False
        i += 1
    return True


def lit(u, variant):
    return "%s:%s" % (variant, ",".join("%x" % x for x in u))


def variants(u):
    v = ["u"]
    if all(x < 256 for x in u):
        v.append("l")
    return v


def strip_rep(ans):
    """remove representation information from an implementation answer"""
    ans = re.sub(r"\b(sa|sb|va|vb)=\S+ ?", "", ans)
    return re.sub(r"=(l|u):", "=", ans).strip()


def gen(ck):
    r = lib.rng(ck.seed)
    quick = ck.tier == "quick"
    seqs = [()]
    for n in (1, 2, 3):
        seqs += list(itertools.product(ALPHA, repeat=n))
    reqs = []

    def add(ua, ub):
        va, vb = variants(ua), variants(ub)
        ca = [c for c in CTORS if c != "str" or valid_text(ua)]
        cb = [c for c in CTORS if c != "str" or valid_text(ub)]
        a_v = va[r() % len(va)]
        b_v = vb[r() % len(vb)]
        i = r() % (len(ua) + 2)
        j = r() % (len(ua) + 3)
        e = [0x20, 0x41, 0xA0, 0xFF, 0x80][r() % 5]
        reqs.append("pair %s %s %s %s %d %d %x" % (ca[r() % len(ca)], lit(ua, a_v), cb[r() % len(cb)], lit(ub, b_v), i, j, e))
    # exhaustive over a: all sequences of length <= 3; b drawn to interact (prefix/suffix/infix/equal/random)
    pool = seqs if not quick else [s for k, s in enumerate(seqs) if len(s) <= 2 or k % 5 == ck.seed % 5]
    for ua in pool:
        ua = list(ua)
        cands = [ua, ua[:1], ua[1:], ua[-1:], list(seqs[r() % len(seqs)])]
        for ub in cands if not quick else [cands[r() % 5], cands[r() % 5]]:
            add(ua, ub)
    # every constructor pair on the same units (the property's own quantifier)
    for ua in ([0x41, 0xE9, 0x20], [0x20, 0xA0, 0x41, 0x0A], [0x41, 0x3C0], [0xD83D, 0xDE00, 0x41], [0xD800], [],
               [0xFEFF, 0x41, 0x2028], [0x6C, 0x65, 0x6E, 0x67, 0x74, 0x68]):
        for c1 in CTORS:
            for c2 in CTORS:
                if "str" in (c1, c2) and not valid_text(ua):
                    continue
                for v1 in variants(ua):
                    for v2 in variants(ua):
                        reqs.append("pair %s %s %s %s %d %d %x" % (c1, lit(ua, v1), c2, lit(ua, v2), r() % 4, r() % 5, 0x41))
    # random up to length 64
    big = [0x09, 0x0A, 0x0B, 0x0C, 0x0D, 0x20, 0x85, 0xA0, 0x1680, 0x2000, 0x200A, 0x200B, 0x2028, 0x2029, 0x202F, 0x205F,
           0x3000, 0xFEFF, 0x180E, 0x41, 0x61, 0x7A, 0xE9, 0xFF, 0x100, 0xD7FF, 0xD800, 0xDBFF, 0xDC00, 0xDFFF, 0xE000, 0xFFFF]
    for _ in range(1500 if quick else 60000):
        n = r() % 65 if r() % 4 == 0 else r() % 9
        mode = r() % 3
        ua = [big[r() % len(big)] if mode else [0x20, 0x41, 0xA0, 0xE9][r() % 4] for _ in range(n)]
        k = r() % 4
        if k == 0 and ua:
            s = r() % len(ua)
            ub = ua[s:s + 1 + r() % 3]
        elif k == 1:
            ub = list(ua)
        else:
            ub = [big[r() % len(big)] if mode else [0x20, 0x41][r() % 2] for _ in range(r() % 4)]
        add(ua, ub)
    return reqs


def run(ck):
    ck.trusted_base += [
        "modelled, not verified: the unsafe allocation / vtable code of boa_string (SequenceString, SliceString, StaticString) — "
        "the model is of the logical JsStr value they expose; std's String::from_utf16, char::decode_utf16, slice::windows",
    ]
    ck.prove("BoaVerif.C11.Theorems", driver="drv-c11")
    bins = ck.build_harness(["c11"])
    reqs = gen(ck)
    rc, iout, ierr = ck.run_bin(bins["c11"], input="\n".join(reqs) + "\n")
    impl = iout.split("\n")[:-1]
    if rc != 0 or len(impl) != len(reqs):
        idx = len(impl)
        ck.fail_input({"site": "c11-harness", "input": reqs[idx] if idx < len(reqs) else "?", "expected": "an answer",
                       "actual": "process ended rc=%s: %s" % (rc, ierr[-300:])})
        reqs = reqs[:idx]
    model = ck.driver("drv-c11", reqs)
    spec = ck.driver("drv-c11", ["spec" + q[4:] for q in reqs])
    bad_spec = bad_model = statics = 0
    ctor_pairs = {}
    for q, a, m, s in zip(reqs, impl, model, spec):
        t = q.split()
        ctor_pairs[(t[1], t[3])] = ctor_pairs.get((t[1], t[3]), 0) + 1
        if strip_rep(a) != s:
            bad_spec += 1
            if bad_spec <= 10:
                ck.fail_input({"site": "boa_string", "input": q, "expected": s, "actual": strip_rep(a),
                               "oracle": "Lean Spec.* on the plain code-unit arrays (C11 statement); full impl answer: " + a})
            continue
        static = "sa=1" in a or "sb=1" in a
        statics += static
        a_cmp = re.sub(r"\b(sa|sb)=\S+ ?", "", a)
        if static:
            a_cmp, m = strip_rep(a_cmp), strip_rep(m)
        if a_cmp != m:
            bad_model += 1
            if bad_model <= 10:
                ck.model_drift({"input": q, "model": m, "implementation": a_cmp})
    ck.oblige("correspondence:boa_string==C11 model on %d requests (incl. representation chosen)" % len(reqs),
              "correspondence", bad_model == 0, "%d disagreements" % bad_model if bad_model else None)
    ck.coverage.update({
        "evaluations": len(reqs),
        "distinct_nontrivial": len(set(q for q in reqs if "l: " not in q + " " or "u: " not in q + " ")),
        "rule": "each request = (constructor, units, encoding) x2 + indices; 17 operations evaluated per request. Exhaustive: all code-unit "
                "sequences of length <= 3 over an 11-letter alphabet (quick: all of length <= 2 and a seed-rotated fifth of length 3) as "
                "first operand; all constructor pairs on fixed units; seeded random up to length 64. distinct = distinct request lines "
                "with at least one non-empty operand",
        "constructor_pairs": {"%s/%s" % k: v for k, v in sorted(ctor_pairs.items())},
        "static_interned_operands": statics,
        "samples": [{"request": reqs[i], "implementation": impl[i], "spec": spec[i]} for i in (1, len(reqs) // 3, len(reqs) - 1)],
        "exhaustive": ck.tier == "thorough",
    })
