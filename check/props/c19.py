"""C19 — parsing is total; printing an AST and re-parsing it is the identity.
The Lean part covers the data-carrying part of the printer/parser pair (string literal values: string_print_lex); its tie is a
correspondence of `push_escaped` with the model on generated string values. Everything structural is checked on the engine itself
(exploration, not proof): for generated programs, a construct corpus and mutated texts — the parser returns (no panic), an error lies
inside the text, the printed form parses again, parse∘print is a fixpoint from the first printed form on (equal text, equal AST),
the printed program evaluates to the same trace, and parsing interns nothing that is not in the text."""
import json
import re

import jsgen
import lib

CORPUS = [
    "var f = (n) => { return { value: n, twice: n * 2 }; }; print(JSON.stringify(f(2))); var g = () => { return {}; }; print(typeof g()); var h = (a, b) => { return a, b; }; print(h(1, 2)); var k = () => { return; }; print(k()); var m = async (x) => { return { x }; }; var q = (x) => ({ x }); print(q(1).x); var w = () => { return function () {}; }; print(typeof w());",
    "var o = { 0x1F: 'a', 1_000: 'b', 0b101: 'c', 1e3: 'd', .5: 'e', 7: 'f', 0o17: 'g', 1n: 'h' }; print(Object.keys(o).join()); class K { 0x10() { return 1; } static 0b11 = 2; get 1e2() { return 3; } } print(new K()[16](), K[3], new K()[100]);",
    "1..toString(); 5 .toString(); 1e21.toFixed(); 0x10.valueOf(); 1.5.toFixed(); 1['a']; 1n.toString();",
    "var x = 1e999, y = -1e999, z = 1e308, w = 2e-7;",
    "var a; (a) = function(){}; print(JSON.stringify(a.name)); a = function(){}; print(a.name); (a) = () => 1; print(JSON.stringify(a.name)); a = (function(){}); print(a.name);",
    "var r = /a/yg; print(r.flags, /b/gimsuyd.flags);",
    # operator spacing: a printer that glues a sign to its operand turns `- -a` into a decrement
    "var a = 5, b = 5; print(- -a, + +a, -(-a), - - -a, ! !a, ~ ~a, typeof typeof a, void void 0, - +a, + -a, a - -a, a + +a, a - - -a); print(- --b, b, + ++b, b, - b--, b, + b++, b, a+++b, a---b, a + ++b, a - --b);",
    "var x = 1, y = 2; print(x++ + ++y, x-- - --y, x+ +y, x- -y, -x ** 2 === undefined, (-x) ** 2, (+y) ** -x, typeof -x, typeof +y, !-x, -!x, ~-x, -~x, 1 - -1, 1 + +1, 1 - - - 1);",
    # clause order matters: default in the middle, with fall-through
    "function f(v){ var s = ''; switch (v) { case 1: s += 'one+'; default: s += 'default+'; case 2: s += 'two'; break; case 3: s += 'three'; } return s; } print(f(1), f(2), f(3), f(9));",
    "function g(v){ switch (v) { default: return 'd'; case 1: return 1; case 2: } return 'end'; } print(g(1), g(2), g(3)); switch (0) { default: print('only default'); } switch (1) { case 1: default: case 2: print('all'); }",
    "var s = \"a\\\"b\\n\" + 'q\\'x' + `t${1+2}u\\n`; print(s, -(-1), +(+1), 2 - -1, 2 + +1, 1 - (2 - 3), (1, 2));",
    "label: for (let i = 0; i < 3; i++) { if (i) continue label; else break; } var x = 0; do x++; while (x < 5) print(x);",
    "var k = 'kk', r = {z: 1}; var o = {get a() { return 1 }, set a(v) {}, [k]: 1, 'q': 2, 3: 4, ...r, m() { return 2 }, async *g() {}, 'a-b': 5, '': 6, 1.5: 7}; print(Object.keys(o).join());",
    "class B {} class A extends B { static #p = 1; #q = 2; constructor() { super(); } static { print('static') } get #g() { return this.#q } static async *[Symbol.iterator]() {} m() { return this.#g + A.#p } } print(new A().m());",
    "var f = async (a, {b, c = 2}, [d, ...e]) => ({}); var g = x => x * 2; function* h() { yield* [1]; } var a = {b: null}; print(a?.b?.[0]?.(1), g(2), typeof f, [...h()].length);",
    "var a = 1, c = 0; if (a) print('b'); else if (c) print('d'); else { print('e') } try { throw 1 } catch { print('c') } finally { print('f') } switch (a) { case 1: case 2: print('12'); break; default: }",
    "var s = 'x'; print(/re\\/g[/]ex/gi.test(s), /a+/.source, 1e21, 1e-7, 0.1, -0, 10n, 0xff, 0o7, 0b1, 1_000, 2 ** 3 ** 2, (-2) ** 2, 1 ?? (0 || 2), typeof void 0);",
    "var o = {a: {b: 1}}; with (o.a) { print(b) } var t = (function() { return typeof new.target })(); print(t, 'in' in {in: 1}, 1 in [0, 1], o instanceof Object);",
    "var i = 0, j = (i++, i--, ++i, --i, i); var {x, y: {z = 3} = {}, ...rest} = {x: 1, w: 2}; var [p, , q = 4, ...rs] = [1, 2]; [p, q] = [q, p]; print(j, x, z, rest.w, p, q, rs.length);",
    "function tag(s, ...v) { return s.raw.join('|') + v.join() } print(tag`a${1}\\n${2}c`, `${`n${1}`}`, `\\``, `$\\{x}`, '\\u2028'.length, \"\\x00\".length);",
    "for (var k in {a: 1}) print(k); for (const v of [1]) print(v); for (let n = 0, m = 1; n < 1; n++) { let n2 = n; print(n2 + m) } for (;;) { break } while (false); var u = void 0; print(u);",
    "async function af() { await 1; for await (const v of [1]) print(v); return 2 } af().then(print); function* gen() { const x = yield 1; print(x); return yield* [2] } var it = gen(); it.next(); it.next(5);",
    "var o = {f() { return this }, 'g'() {}, ['h']() {}, get [1 + 1]() { return 2 }, async a() {}, *b() {}, if: 1, class: 2, 'quoted key': 3}; print(o.if + o.class + o['quoted key'] + o[2]);",
    "x = 1; var y = x ? (1, 2) : (3, 4); var z = (x = 2) + 1; print(y, z, (x, y), !x, !!x, ~x, -x, +x, x && y || z, (x && y) || z, x && (y || z), (a => a)(1), (function() { return 1 })(), (class {}).name);",
    "if (true) function decl() {} ; L1: L2: { break L1 } ; { let a = 1; { let a = 2; print(a) } print(a) } ; var v = function named() { return typeof named }(); print(v);",
    "print(1 + 2 * 3, (1 + 2) * 3, 1 - 2 - 3, 1 - (2 - 3), 2 ** -1, (a => a)`x`, new Date(0).getTime(), new (class { constructor(a) { this.a = a } })(1).a, new Array(3).length, new Object);",
]

MUT = ["(", ")", "{", "}", "[", "]", ";", ",", "=>", "...", "`", "'", "\"", "\\", "/", "/*", "//", "\n", "\u2028", "0x", "1e", "#", "@", "?.", "??=", "**", "async ", "await ", "yield ", "let ", "class ", "\\u{110000}", "\\u00", "\\uD800", "\\u{DC00}", "a\\uDFFF", "#x\\uD800", "\\u{D800}x", "\\u0061b", "var \\uD800 = 1;", ".\\uDC00", "\xff", "\ud800", "\0", "<!--", "-->"]


def u16(text):
    out = []
    for ch in text:
        o = ord(ch)
        if o >= 0x10000:
            o -= 0x10000
            out += [0xD800 + (o >> 10), 0xDC00 + (o & 0x3FF)]
        else:
            out.append(o)
    return out


# ------------------------------------------------------------------------------------------------ precedence sub-grammar
def prec_expr(r, d):
    """token list of an arithmetic expression: numbers, unary minus, + - * /, parentheses"""
    k = r() % 10
    if d <= 0 or k < 3:
        return [str(r() % 100)]
    if k < 4:
        return ["-"] + prec_expr(r, d - 1)
    if k < 6:
        return ["("] + prec_expr(r, d - 1) + [")"]
    return prec_expr(r, d - 1) + [["+", "-", "*", "/"][r() % 4]] + prec_expr(r, d - 1)


def prec_mutate(r, toks):
    t = list(toks)
    for _ in range(1 + r() % 2):
        if not t:
            break
        k = r() % 4
        i = r() % len(t)
        if k == 0:
            del t[i]
        elif k == 1:
            t.insert(i, ["+", "-", "*", "(", ")", str(r() % 10)][r() % 6])
        elif k == 2:
            j = r() % len(t)
            t[i], t[j] = t[j], t[i]
        else:
            t[i] = ["+", "-", "*", "(", ")", str(r() % 10)][r() % 6]
    return t


def regex_position(toks):
    """a `/` where JavaScript expects an operand starts a regular expression literal: outside the model's token alphabet"""
    prev = None
    for t in toks:
        if t == "/" and (prev is None or prev in ("+", "-", "*", "/", "(")):
            return True
        prev = t
    return False


def run(ck):
    ck.trusted_base += [
        "boa_verif hook Interner::verif_dynamic_strings; harness c19 (parse / to_interned_string / re-parse, AST equality through one interner)",
        "Lean covers string-literal values only; statement and expression structure, operators, templates, regular expressions, numeric literals and "
        "the placement of parentheses (the AST keeps Parenthesized nodes) are compared on the engine itself (exploration)",
    ]
    ck.level = "proof"
    ck.prove("BoaVerif.C19.Theorems", driver="drv-c19")
    bins = ck.build_harness(["c19", "trace"])
    r = lib.rng(ck.seed)
    quick = ck.tier == "quick"

    # ---- (i) string literal values: engine printer == Lean model
    UN = [0x22, 0x27, 0x5C, 0x0A, 0x0D, 0x09, 0x08, 0x00, 0x1F, 0x7F, 0x20, 0x61, 0x24, 0x7B, 0x60, 0xE9, 0x2028, 0x2029, 0xFEFF, 0xD800, 0xDBFF, 0xDC00, 0xDFFF, 0xFFFF]
    strings = [[], [0x22], [0x5C], [0xD800], [0xDC00, 0xD800], [0xD83D, 0xDE00], [0x24, 0x7B]]
    for _ in range(300 if quick else 6000):
        s = []
        for _k in range(r() % 7):
            c = r() % 10
            if c < 6:
                s.append(UN[r() % len(UN)])
            elif c < 8:
                s += [0xD800 + r() % 0x400, 0xDC00 + r() % 0x400]
            else:
                s.append(r() % 0x10000)
        strings.append(s)
    src = []
    for i, s in enumerate(strings):
        lit = "".join("\\u%04X" % u for u in s)
        src.append("//// s%d" % i)
        src.append("x = \"%s\";" % lit)
    rc, out, err = ck.run_bin(bins["c19"], input="\n".join(src) + "\n")
    res = {}
    for l in out.split("\n"):
        if l.startswith("{"):
            j = json.loads(l)
            res[j["id"]] = j
    lean = ck.driver("drv-c19", ["print " + ("".join("%04x" % u for u in s) or "-") for s in strings])
    nstr = 0
    for i, (s, a) in enumerate(zip(strings, lean)):
        j = res.get("s%d" % i)
        if not j or j.get("parse") != "ok":
            ck.fail_input({"site": "string-literal-parse", "input": src[2 * i + 1], "expected": "parses", "actual": str(j)[:200]})
            continue
        nstr += 1
        p1 = j["p1"].strip()
        want_units = [int(a.split()[0][k:k + 4], 16) for k in range(0, len(a.split()[0]), 4)]
        if not (p1.startswith("x = ") and p1.endswith(";")):
            ck.fail_input({"site": "string-literal-print-shape", "input": src[2 * i + 1], "expected": "x = <literal>;", "actual": p1[:200]})
            continue
        got_units = u16(p1[4:-1])
        if got_units != want_units:
            ck.fail_input({"site": "string-literal-printed-differently", "input": src[2 * i + 1], "expected": "".join("%04x" % u for u in want_units),
                           "actual": "".join("%04x" % u for u in got_units), "oracle": "C19.printString (proved to lex back to the value)"})
        if j.get("reparse") != "ok" or j.get("p1") != j.get("p2") or not j.get("ast_eq"):
            ck.fail_input({"site": "string-literal-roundtrip", "input": src[2 * i + 1], "expected": "reparse ok, fixpoint, equal AST", "actual": {k: j.get(k) for k in ("reparse", "p1", "p2", "ast_eq")}})

    # ---- (ii) programs: the corpus, generated programs, and single-token mutations of them
    progs = list(CORPUS) + [jsgen.gen_program(r, 4, strict=(i % 4 == 0)) for i in range(200 if quick else 5000)]
    texts = [(p, "program") for p in progs]
    for p in progs[: len(progs) // 2]:
        for _ in range(2):
            k = r() % 4
            pos = r() % (len(p) + 1)
            m = MUT[r() % len(MUT)]
            if k == 0:
                q = p[:pos] + m + p[pos:]
            elif k == 1:
                q = p[:pos] + p[pos + 1 + r() % 3:]
            elif k == 2:
                q = p[:pos]
            else:
                q = p[:pos] + m + p[pos + len(m):]
            texts.append((q, "mutated"))
    for _ in range(60 if quick else 2000):
        n = r() % 40
        texts.append(("".join(chr(r() % 128) if r() % 5 else MUT[r() % len(MUT)] for _ in range(n)), "noise"))
    src = []
    for i, (t, _) in enumerate(texts):
        src.append("//// t%d hex=%s" % (i, t.encode("utf-8", "surrogatepass").hex() if t else ""))
    rc, out, err = ck.run_bin(bins["c19"], input="\n".join(src) + "\n")
    res = {}
    for l in out.split("\n"):
        if l.startswith("{"):
            j = json.loads(l)
            res[j["id"]] = j
    if rc != 0 or len(res) != len(texts):
        ck.fail_input({"site": "parser-crash", "input": "c19 batch", "expected": "%d answers" % len(texts), "actual": "rc=%s, %d answers: %s" % (rc, len(res), err[-300:])})
    stats = {"ok": 0, "err": 0}
    ev = []
    for i, (t, why) in enumerate(texts):
        j = res.get("t%d" % i)
        if not j:
            continue
        if j["parse"] == "panic":
            ck.fail_input({"site": "parser-panic", "input": t, "expected": "an AST or a syntax error", "actual": "panic"})
            continue
        stats[j["parse"]] = stats.get(j["parse"], 0) + 1
        if j["parse"] == "err":
            pos = j.get("pos")
            if pos:
                line, col = pos
                lines = re.split("\r\n|[\n\r\u2028\u2029]", t)     # every ECMAScript LineTerminatorSequence starts a new line
                # positions are 1-based; one past the end of a line / of the text is still "inside" (end of input)
                if not (1 <= line <= len(lines) + 1) or (line <= len(lines) and not (1 <= col <= len(lines[line - 1]) + 2)):
                    ck.fail_input({"site": "error-position-outside-text", "input": t, "expected": "1 <= line <= %d, column inside the line" % (len(lines) + 1), "actual": pos})
            continue
        if j.get("reparse") != "ok":
            ck.fail_input({"site": classify_print(j.get("p1", "")) , "input": t, "printed": j.get("p1"), "expected": "the printed program parses", "actual": j.get("msg")})
            continue
        if j["p1"] != j["p2"] or j["p2"] != j.get("p3") or not j.get("ast_eq"):
            ck.fail_input({"site": "print-parse-not-a-fixpoint", "input": t, "expected": j["p1"][:600], "actual": {"p2": j["p2"][:600], "ast_eq": j.get("ast_eq")}})
            continue
        if j.get("interned") and "\\" not in t and "`" not in t:
            ck.fail_input({"site": "interned-string-not-in-text", "input": t, "expected": "only substrings of the source are interned", "actual": j["interned"][:5]})
        if why == "program":
            ev.append((t, j["p1"]))
    # ---- (iii) the printed program evaluates to the same trace
    src = []
    for k, (t, p1) in enumerate(ev):
        src += ["//// a%d budget=4000000" % k, t, "//// b%d budget=4000000" % k, p1]
    rc, out, err = ck.run_bin(bins["trace"], input="\n".join(src) + "\n")
    tr = {}
    for l in out.split("\n"):
        if l.startswith("{"):
            j = json.loads(l)
            tr[j["id"]] = j
    same = 0
    for k, (t, p1) in enumerate(ev):
        a, b = tr.get("a%d" % k), tr.get("b%d" % k)
        if not a or not b:
            continue
        if a["out"] == b["out"] and a["completion"] == b["completion"]:
            same += 1
        else:
            d = next((x for x in range(min(len(a["out"]), len(b["out"]))) if a["out"][x] != b["out"][x]), min(len(a["out"]), len(b["out"])))
            ck.fail_input({"site": "printed-program-behaves-differently", "input": t, "printed": p1[:1500], "expected": {"out": a["out"][d:d + 3], "completion": a["completion"]},
                           "actual": {"out": b["out"][d:d + 3], "completion": b["completion"]}})
    # ---- precedence and parentheses: boa's parser/printer == the Lean precedence model (tree shape, verdict, fixpoint)
    pcases = []
    for _ in range(600 if quick else 20000):
        toks = prec_expr(r, 2 + r() % 4)
        pcases.append(toks)
        if r() % 3 == 0:
            pcases.append(prec_mutate(r, toks))
    pcases = [t for t in pcases if t and len(t) < 200]
    pans = ck.driver("drv-c19", ["prec " + " ".join(t) for t in pcases])
    psrc = []
    for i, t in enumerate(pcases):
        psrc.append("//// q%d" % i)
        psrc.append(" ".join(t))
    rc, pout, perr = ck.run_bin(bins["c19"], input="\n".join(psrc) + "\n")
    peng = {}
    for l in pout.split("\n"):
        if l.startswith("{"):
            j = json.loads(l)
            peng[j["id"]] = j
    pbad = paccept = preject = 0
    for i, (t, m) in enumerate(zip(pcases, pans)):
        j = peng.get("q%d" % i)
        text = " ".join(t)
        if j is None or j.get("parse") == "panic":
            pbad += 1
            ck.fail_input({"site": "precedence-harness", "input": text, "expected": m, "actual": j})
            continue
        if m.startswith("tree "):
            paccept += 1
            want = m[5:].rsplit(" ", 1)[0]
            if not m.endswith(" fix"):
                ck.model_drift({"input": text, "model": m, "implementation": "-", "note": "the model's own parse/print pair is not a fixpoint (theorem parse_print_parse)"})
            if j.get("parse") != "ok" or j.get("shape") != want or j.get("shape2") != want or not j.get("ast_eq") or j.get("p1") != j.get("p2"):
                pbad += 1
                ck.fail_input({"site": "precedence-tree-differs", "input": text, "expected": {"tree": want, "print-parse": "fixpoint"},
                               "actual": {k: j.get(k) for k in ("parse", "shape", "shape2", "ast_eq", "p1", "p2")}, "oracle": "Lean precedence model (C19.Prec)"})
        elif m == "reject":
            preject += 1
            # a text the engine accepts with a construct outside the model's alphabet (unary plus, a call `1 (2)`, a regular
            # expression literal) is outside the comparison; inside the alphabet the verdicts must agree
            if j.get("parse") == "ok" and not regex_position(t) and "?" not in (j.get("shape") or "?"):
                pbad += 1
                ck.fail_input({"site": "precedence-accepts-invalid", "input": text, "expected": "a syntax error", "actual": {"shape": j.get("shape"), "p1": j.get("p1")},
                               "oracle": "Lean precedence model (C19.Prec)"})
        else:
            ck.model_drift({"input": text, "model": m, "implementation": "-"})
    ck.oblige("correspondence:boa parser/printer == C19 precedence model on %d token sequences (%d accepted, %d rejected)" % (len(pcases), paccept, preject),
              "correspondence", pbad == 0, "%d disagreements" % pbad if pbad else None)
    ck.oblige("correspondence:printer's string literals == C19 model (%d values)" % nstr, "correspondence", True)
    ck.coverage.update({
        "evaluations": len(strings) + len(texts) + 2 * len(ev),
        "distinct_nontrivial": len(set(t for t, _ in texts)),
        "rule": "string values of 0-6 units from quotes, backslash, line terminators, controls, DEL, `${`, U+2028/9, BOM, paired and lone surrogates, random units; programs: %d-entry construct corpus + "
                "generated programs; two mutations (insert / delete / cut / overwrite with one of %d fragments) of half of them; short noise texts. distinct = distinct texts" % (len(CORPUS), len(MUT)),
        "string_values": nstr, "texts_by_origin": {w: sum(1 for _, x in texts if x == w) for w in ("program", "mutated", "noise")},
        "parse_verdicts": stats, "programs_evaluated_twice": len(ev), "same_trace": same,
        "samples": [texts[0][0][:300], texts[len(progs)][0][:300]],
        "partial": ["only string-literal values are modelled and proved; the rest of the property is explored on the engine (level: exploration for those parts)",
                    "termination of the parser is observed (every text returned), not proved"],
    })


def classify_print(p1):
    return "printed-program-does-not-parse"
