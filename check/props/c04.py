"""C04 — binding placement (register vs environment), constant-binding cache, loop-invariant hoisting and fused
compare-and-branch never change program behaviour.
model: two storage disciplines for an activation's variables (everything in the shared environment vs. non-escaping
variables in registers), related by a simulation (lean/BoaVerif/C04).
tie: (i) toy programs of the model's language are translated to JavaScript and run on the engine in the default and the
conservative configuration (hook); both traces must equal the model's reference trace, and the engine must not keep a
variable in a register that the model's placement condition forbids (read from the compiled code's binding tables);
(ii) the property's own differential on a generator biased to the shapes the analysis can get wrong."""
import json
import re

import jsgen
import lib

# ------------------------------------------------------------------------------------------------ toy programs
NV = 6


class Toy:
    def __init__(self, r):
        self.r = r
        self.uid = 0

    def expr(self, d):
        r = self.r
        k = r() % 100
        if d <= 0 or k < 30:
            return ("v", r() % NV) if r() % 3 else ("n", r() % 9 - 3)
        if k < 55:
            return ("+", self.expr(d - 1), self.expr(d - 1))
        if k < 65:
            return ("*", ("n", r() % 5 - 2), self.expr(d - 1)) if r() % 2 else ("*", self.expr(d - 1), ("n", r() % 5 - 2))
        if k < 80:
            return ("<", self.expr(d - 1), self.expr(d - 1))
        return ("c", r() % self.nf, self.expr(d - 1)) if self.nf else ("v", r() % NV)

    def stmt(self, d):
        r = self.r
        k = r() % 100
        if d <= 0 or k < 35:
            return ("=", r() % NV, self.expr(3))
        if k < 55:
            return ("p", self.expr(3))
        if k < 75:
            return (";", self.stmt(d - 1), self.stmt(d - 1))
        if k < 88:
            return ("i", self.expr(2), self.stmt(d - 1), self.stmt(d - 1))
        return ("l", 1 + r() % 4, self.expr(2), self.stmt(d - 1))

    def program(self):
        r = self.r
        self.nf = r() % 4
        self.tbl = [(r() % NV, r() % NV) for _ in range(self.nf)]
        if self.nf and r() % 3 == 0:       # few escaping variables: most stay in registers
            a = r() % NV
            self.tbl = [(a, a) for _ in range(self.nf)]
        body = self.stmt(4)
        for v in range(NV):
            body = (";", body, ("p", ("v", v)))
        return body


def toy_tokens(t):
    k = t[0]
    if k in ("n", "v"):
        return [k, str(t[1])]
    if k in ("+", "*", "<"):
        return [k] + toy_tokens(t[1]) + toy_tokens(t[2])
    if k == "c":
        return ["c", str(t[1])] + toy_tokens(t[2])
    if k == "=":
        return ["=", str(t[1])] + toy_tokens(t[2])
    if k == "p":
        return ["p"] + toy_tokens(t[1])
    if k == ";":
        return [";"] + toy_tokens(t[1]) + toy_tokens(t[2])
    if k == "i":
        return ["i"] + toy_tokens(t[1]) + toy_tokens(t[2]) + toy_tokens(t[3])
    if k == "l":
        return ["l", str(t[1])] + toy_tokens(t[2]) + toy_tokens(t[3])
    raise ValueError(k)


class ToJs:
    """JavaScript rendering of a toy program over BigInt (no precision loss; the model computes in Int)"""

    def __init__(self, r):
        self.r = r
        self.uid = 0

    def e(self, t):
        k = t[0]
        if k == "n":
            return "%dn" % t[1] if t[1] >= 0 else "(%dn)" % t[1]
        if k == "v":
            return "v%d" % t[1]
        if k == "+":
            return "(%s + %s)" % (self.e(t[1]), self.e(t[2]))
        if k == "*":
            return "(%s * %s)" % (self.e(t[1]), self.e(t[2]))
        if k == "<":
            return "(%s < %s ? 1n : 0n)" % (self.e(t[1]), self.e(t[2]))
        if k == "c":
            return "f%d(%s)" % (t[1], self.e(t[2]))
        raise ValueError(k)

    def cond(self, t):
        # a comparison used directly as a condition is the shape the fused compare-and-branch opcodes take
        if t[0] == "<":
            return "%s < %s" % (self.e(t[1]), self.e(t[2]))
        return "%s != 0n" % self.e(t)

    def s(self, t):
        k = t[0]
        if k == "=":
            return "v%d = %s;" % (t[1], self.e(t[2]))
        if k == "p":
            return "print(String(%s));" % self.e(t[1])
        if k == ";":
            return self.s(t[1]) + "\n" + self.s(t[2])
        if k == "i":
            return "if (%s) {\n%s\n} else {\n%s\n}" % (self.cond(t[1]), self.s(t[2]), self.s(t[3]))
        if k == "l":
            self.uid += 1
            c = "k%d" % self.uid
            form = self.r() % 3
            if form == 0:
                return "for (let %s = %d; %s > 0; %s--) {\nif (!(%s)) break;\n%s\n}" % (c, t[1], c, c, self.cond(t[2]), self.s(t[3]))
            if form == 1:
                return "{ let %s = %d; while (0 < %s) {\nif (%s) {} else break;\n%s--;\n%s\n} }" % (c, t[1], c, self.cond(t[2]), c, self.s(t[3]))
            return "{ const lim%s = %d; let %s = 0; while (%s < lim%s && %s) {\n%s++;\n%s\n} }" % (c, t[1], c, c, c, self.cond(t[2]), c, self.s(t[3]))
        raise ValueError(k)

    def program(self, body, tbl):
        kinds = [["let", "var", "let"][self.r() % 3] for _ in range(NV)]
        decl = "\n".join("%s v%d = 0n;" % (kinds[i], i) for i in range(NV))
        fs = "\n".join("function f%d(a) { let t = v%d + a; v%d = t; return t * 2n - a; }" % (k, rw[0], rw[1]) for k, rw in enumerate(tbl))
        if tbl and self.r() % 2:
            fs = "\n".join("const f%d = (a) => { const t = v%d + a; v%d = t; return t * 2n - a; };" % (k, rw[0], rw[1]) for k, rw in enumerate(tbl))
        return "function main() {\n%s\n%s\n%s\n}\nmain();" % (decl, fs, self.s(body))


# ------------------------------------------------------------------------------------------------ differential generator
class G4:
    """programs biased to the shapes an escape analysis / operand aliasing can get wrong"""

    def __init__(self, r):
        self.r = r
        self.uid = 0
        self.names = []

    def pick(self, xs):
        return xs[self.r() % len(xs)]

    def fresh(self, p):
        self.uid += 1
        return "%s%d" % (p, self.uid)

    def lit(self):
        return self.pick(["0", "1", "2", "3", "5", "10", "-1", "'5'", "'a'", "''", "true", "null", "undefined", "1.5", "2147483647", "'7'", "10n"])

    def name(self):
        return self.pick(self.names) if self.names else "u0"

    def expr(self, d):
        r = self.r
        k = r() % 100
        x = self.name()
        if d <= 0 or k < 18:
            return x if r() % 3 else self.lit()
        if k < 30:
            return "(%s %s %s)" % (self.expr(d - 1), self.pick(["+", "-", "*", "<", "<=", ">", ">=", "==", "===", "%", "&", "|", "<<", "**"]), self.expr(d - 1))
        if k < 44:   # a variable read next to an operand that writes it
            w = self.pick(["(%s = %s)" % (x, self.expr(d - 1)), "%s++" % x, "++%s" % x, "%s--" % x, "(%s += %s)" % (x, self.expr(d - 1)),
                           "(%s, %s = %s, %s)" % (x, x, self.lit(), x), "(() => %s = %s)()" % (x, self.lit()), "(%s ||= %s)" % (x, self.lit()),
                           "(%s ??= %s)" % (x, self.lit()), "([%s] = [%s])[0]" % (x, self.expr(d - 1)), "({a: %s} = {a: %s}).a" % (x, self.lit())])
            op = self.pick(["+", "-", "*", "<", "<=", ">", ">=", "==", "===", "&", ","])
            form = r() % 6
            if form == 0:
                return "(%s %s %s)" % (x, op, w)
            if form == 1:
                return "(%s %s %s)" % (w, op, x)
            if form == 2:
                return "[%s, %s, %s].join()" % (x, w, x)
            if form == 3:
                return "String([%s, %s %s %s])" % (x, x, op, w)
            if form == 4:
                return "`${%s}${%s}${%s}`" % (x, w, x)
            return "((a, b, c) => [a, b, c].join())(%s, %s, %s)" % (x, w, x)
        if k < 52:
            return "typeof " + self.pick([x, "(%s++)" % x, "(%s--)" % x, "(++%s)" % x, "(-%s)" % x, "(+%s)" % x, "zz"])
        if k < 58:
            return "(%s ? %s : %s)" % (self.pick(["%s < %s" % (self.expr(d - 1), self.expr(d - 1)), "(%s < %s)" % (x, self.lit()), self.expr(d - 1)]), self.expr(d - 1), self.expr(d - 1))
        if k < 64:
            return "(%s %s %s)" % (self.expr(d - 1), self.pick(["&&", "||", "??"]), self.expr(d - 1))
        if k < 70:
            return "(() => %s)()" % self.expr(d - 1)
        if k < 73:
            return "eval(%s)" % json.dumps(self.pick(["%s", "%s = 7", "%s + 1", "var ev = %s; ev", "typeof %s", "(() => %s)()"]) % x)
        if k < 75:
            ev = "eval(%s)" % json.dumps(self.pick(["%s", "%s = 8", "typeof %s"]) % x)
            return self.pick(["({ m() { return %s; } }).m()", "({ get g() { return %s; } }).g", "new (class { x = %s; })().x", "(class { static y = %s; }).y",
                              "new (class { m() { return %s; } })().m()", "[...({ *g() { yield %s; } }).g()][0]"]) % ev
        if k < 79:
            return "(0, eval)(%s)" % json.dumps(self.pick(["typeof %s" % x, "1 + 1"]))
        if k < 84:
            return "(function () { return %s; })()" % self.expr(d - 1)
        if k < 88:
            return "[%s, %s]" % (self.expr(d - 1), self.expr(d - 1))
        if k < 92:
            return "(%s = %s)" % (x, self.expr(d - 1))
        return "({ v: %s, get g() { return %s; } }).%s" % (self.expr(d - 1), x, self.pick(["v", "g"]))

    def pr(self, e):
        return "try { print(String(%s)); } catch (e) { print('E:' + (e && e.name)); }" % e

    def decl(self, d):
        n = self.fresh("x")
        kind = self.pick(["let", "let", "const", "var"])
        s = "%s %s = %s;" % (kind, n, self.expr(d))
        self.names.append(n)
        return s

    def block(self, d):
        saved = list(self.names)
        body = " ".join(self.stmt(d) for _ in range(1 + self.r() % 3))
        self.names = saved
        return "{ %s }" % body

    def stmt(self, d):
        r = self.r
        k = r() % 100
        x = self.name()
        if d <= 0 or k < 16:
            return self.pr(self.expr(3))
        if k < 26:
            return self.decl(2)
        if k < 33:   # loops with relational heads (hoisting, fused branches), mutated or constant bounds
            i = self.fresh("i")
            lim = self.pick(["3", "4", x, "lim", "'3'", "3.5", "2n", "o.n", "(n = n - 1)", "lim2", "GV3", "GL3", "imp3", "ev3", "K"])
            head = self.pick(["for (let %(i)s = 0; %(i)s < %(l)s; %(i)s++)", "for (var %(i)s = 0; %(l)s > %(i)s; %(i)s++)",
                              "for (let %(i)s = 0, g%(i)s = () => %(i)s; %(i)s <= %(l)s; %(i)s++)",
                              "for (let %(i)s = 5; %(i)s >= %(l)s; %(i)s--)",
                              "for (let %(i)s = 0; (%(i)s < %(l)s); %(i)s++)"]) % {"i": i, "l": lim}
            saved = list(self.names)
            self.names.append(i)
            extra = self.pick(["", "fs.push(() => %s);" % i, "lim = 1;", "if (%s > 1) break;" % i, "%s++;" % i, "if (%s < 2) continue;" % i, "lim2 = lim2 - 1;",
                               "GV3 = GV3 - 1;", "GL3--;", "imp3 = 1;", "ev3 -= 1;", "GV3 = GL3 = imp3 = ev3 = 2;"])
            body = "{ if (++guard > 40) break; %s %s }" % (extra, self.stmt(d - 1))
            self.names = saved
            return head + " " + body
        if k < 38:
            c = self.fresh("w")
            cond = self.pick(["%s < %s" % (c, self.pick(["3", "lim", "K", "CK", x, "GV3", "GL3", "imp3", "ev3"])), "%s <= 2" % c, "0 < 3 - %s" % c, "%s < 3 && %s" % (c, self.expr(1)),
                              "!(%s >= 3)" % c, "%s >= %s" % (self.pick(["3", "lim", "K"]), c)])
            saved = list(self.names)
            self.names.append(c)
            form = r() % 2
            body = "if (++guard > 40) break; %s++; %s %s" % (c, self.pick(["", "", "GV3--;", "GL3 -= 1;", "imp3 = imp3 - 1;", "ev3--;"]), self.stmt(d - 1))
            self.names = saved
            if form:
                return "{ let %s = 0; do { %s } while (%s); }" % (c, body, cond)
            return "{ let %s = 0; while (%s) { %s } }" % (c, cond, body)
        if k < 43:
            return "if (%s) %s else %s" % (self.pick(["%s < %s" % (x, self.lit()), "%s >= %s" % (self.expr(1), self.expr(1)), "(%s > (%s = 1))" % (x, x), self.expr(2)]),
                                           self.block(d - 1), self.block(d - 1))
        if k < 49:   # closures over block and loop variables
            f = self.fresh("f")
            self.names.append(f)
            body = self.pick(["%s = %s; return %s;" % (x, self.expr(1), x), "return %s++;" % x, "return typeof %s;" % x, "%s += 1; return () => %s;" % (x, x),
                              "return eval('%s');" % x, "let %s = 1; return %s;" % (x, x), "return arguments.length + %s;" % x])
            return self.pick(["function %s(a, b) { %s }" % (f, body), "const %s = (a, b) => { %s };" % (f, body.replace("arguments.length", "0")),
                              "let %s = function (a, b = () => a) { a = 5; %s };" % (f, body), "function* %s(a) { yield %s; %s }" % (f, x, body),
                              "function %s(a, b = %s, c = () => b) { b = 2; %s }" % (f, x, body)])
        if k < 54:
            return self.pr(self.pick(["%s(1, 2)", "%s(%s)" % ("%s", x), "[...%s(1)].join()", "%s(1)()", "%s().next().value", "typeof %s()"]) % self.pick(self.names + ["fs[0]"]))
        if k < 59:   # switch with lexical declarations: temporal dead zone across cases
            y = self.fresh("y")
            sel = self.pick(["0", "1", "2", x, "sw"])
            kw = self.pick(["let", "let", "const"])
            return "try { switch (%s) { case 0: %s %s = %s; print('c0', %s); %s case 1: %s %s default: print('d'); %s print(%s); } } catch (e) { print('E:' + e.name); }" % (
                sel, kw, y, self.lit(), y, self.pick(["", "break;"]),
                self.pick(["print('c1', typeof %s);" % y, "print('c1', %s);" % y, "%s = 2;" % y if kw == "let" else "print(%s + 1);" % y, "print((() => %s)());" % y, "print([%s, %s < 2].join());" % (y, y)]),
                self.pick(["", "break;"]), "%s = 3;" % y if kw == "let" else "", y)
        if k < 64:   # temporal dead zone in blocks and through closures
            z = self.fresh("z")
            use = self.pick(["print(%s);" % z, "print(typeof %s);" % z, "%s = 1;" % z, "rd();", "print(%s + 1);" % z, "%s++;" % z, "print(%s < 2);" % z, "if (%s < 2) print('lt');" % z])
            return "try { %s { %s %s %s = %s; print(%s); } } catch (e) { print('E:' + e.name); }" % (
                self.pick(["", "function rd() { return %s; }" % z]).replace("rd() {", "rd() {"), use if "rd" not in use else "print('skip');", self.pick(["let", "const"]), z, self.lit(), z)
        if k < 69:   # with: names resolve through the object, even cached constants and locals
            obj = self.pick(["{%s: 10}" % x, "{K: 9, CK: 8}", "o", "{lim: 2}", "new Proxy({}, {has: (t, k) => k === '%s', get: () => 42})" % x])
            use = lambda: self.pr(self.pick([x, "K + CK", "%s = 11" % x, "%s < lim" % x, "typeof %s" % x, "(() => %s)()" % x, "[%s, %s = 2, %s].join()" % (x, x, x)]))
            if self.r() % 3 == 0:
                return "with (%s) { %s with (%s) { %s } %s %s }" % (obj, use(), self.pick(["{}", "{q: 1}", "{%s: 20}" % x, "o"]), use(), use(), self.stmt(d - 1))
            return "with (%s) { %s %s }" % (obj, use(), self.stmt(d - 1))
        if k < 74:
            e = self.fresh("e")
            saved = list(self.names)
            self.names.append(e)
            s = "try { %s throw %s; } catch (%s) { %s %s }" % (self.stmt(d - 1), self.expr(1), e, self.pr("%s = %s" % (e, e)), self.stmt(d - 1))
            self.names = saved
            return s + (" finally { %s }" % self.pr(x) if r() % 2 else "")
        if k < 79:
            a, b = self.fresh("a"), self.fresh("b")
            self.names += [a, b]
            return self.pick(["let [%s, %s = %s] = [%s];" % (a, b, a, self.expr(1)), "var {p: %s, q: %s = () => %s} = {p: %s};" % (a, b, a, self.expr(1)),
                              "const {%s = 1, ...%s} = {z: 2};" % (a, b), "let %s = 1, %s = %s + (%s = 2);" % (a, b, a, a)])
        if k < 84:
            return self.pick(["%s = %s;" % (x, self.expr(2)), "%s += %s;" % (x, self.expr(1)), "%s++;" % x, "[%s, u0] = [u0, %s];" % (x, x), "%s = %s + (%s = %s);" % (x, x, x, self.lit()),
                              "({a: %s} = {a: %s});" % (x, self.expr(1)), "%s **= 2;" % x, "%s = typeof (%s++);" % (x, x)])
        if k < 88:
            g = self.fresh("gn")
            self.names.append(g)
            return "function* %s() { let l = 0; while (l < 3) { const got = yield l++ + %s; if (got) l = got; } return l; } %s" % (
                g, x, self.pr("(() => { const it = %s(); return [it.next().value, it.next(2).value, it.next().value, it.next().done]; })()" % g))
        if k < 91:
            return "function am(a) { %s; return [a, arguments[0]].join(); } %s" % (self.pick(["arguments[0] = 9", "a = 9", "'use strict'; arguments[0] = 9", "(() => a = 3)()"]), self.pr("am(1)"))
        if k < 94:
            l = self.fresh("L")
            i = self.fresh("i")
            return "%s: for (let %s = 0; %s < 3; %s++) { for (let j = 0; j < 3; j++) { if (j > %s) continue %s; if (++guard > 60) break %s; fs.push(() => %s + j); } }" % (l, i, i, i, i, l, l, i)
        if k < 97:
            return self.pr("fs.map(f => { try { return f(); } catch (e) { return e.name; } }).join()")
        return self.block(d - 1)

    def program(self):
        r = self.r
        self.names = ["u0", "p0", "p1", "n", "lim"]
        strict = r() % 5 == 0
        params = self.pick(["p0, p1", "p0, p1 = () => p0", "p0 = 1, p1 = p0 + (p0 = 2)", "p0, p1 = eval('p0')", "p0, ...p1", "{p0, p1} = {p0: 1, p1: 2}"])
        body = []
        for _ in range(4 + r() % 7):
            body.append(self.stmt(3))
        src = "const K = 5; let GL = 1; var GV = 2; var GV3 = 3; let GL3 = 3; imp3 = 3; eval('var ev3 = 3');\nfunction main(%s) {\n%s var u0 = 1, n = 4; let lim = 3, lim2 = 6, guard = 0, sw = 1; const CK = 4, o = {n: 3, x: 1}; const fs = [];\n%s\nprint(String([u0, n, lim, typeof p0]));\n}\n" % (
            params, "'use strict';" if strict and "=" not in params and "..." not in params else "", "\n".join(body))
        src += "try { main(%s); } catch (e) { print('E:' + (e && e.name)); }\n" % self.pick(["1, 2", "", "'5'", "{p0: 3}", "1"])
        if strict:
            src = re.sub(r"with \([^)]*\)+ ", "", src)
        return src


FIXED = [
    # operand aliasing: a register-resident variable read before an operand that writes it
    "function g(){ let x=1; return x+(x=5); } print(g());",
    "function g(){ let x=1; return x*(x++) + x; } print(g());",
    "function g(){ let x=1; return [x < (x=5), x <= (x=0), (x=2) > x].join(); } print(g());",
    "function g(){ let x=1; if (x < (x = 5)) print('lt'); else print('ge'); } g();",
    "function g(){ let x=1, y = 0; while (x < (x = x + 1, 4)) { if (++y > 9) break; } print(x, y); } g();",
    "function g(a){ return a + (a = 2) + a; } print(g(1));",
    "function g(){ let x='a'; return `${x}${x='b'}${x}` + [x, x='c', x].join(); } print(g());",
    "function g(){ let x=1; const f=(a,b,c)=>[a,b,c].join(); return f(x, x=2, x); } print(g());",
    "function g(){ let x=1; return x + (() => 1)() + (x = 3) ; } print(g());",
    "function g(){ let x = 3; return x ** (x = 2); } print(g());",
    "function g(){ let x = 3, o = {}; o[x] = (x = 4); return JSON.stringify(o) + x; } print(g());",
    "function g(){ let x = 1; x += (x = 5); return x; } print(g());",
    "function g(){ let x = 1; return x + x++ + x; } print(g());",
    "function g(){ let x = 1; return (x, x = 7) + x; } print(g());",
    # update results
    "function h(){ let p='5'; return typeof(p++) + p; } print(h());",
    "function h(){ let p='5'; return typeof(p--) + p; } print(h());",
    "function h(){ let p='5'; const r = p++; return typeof r + r; } print(h());",
    "function h(){ let p=10n; const r = p++; return typeof r + r + p; } print(h());",
    "function h(){ let p={valueOf(){ print('v'); return 3; }}; const r = p++; return typeof r + r + p; } print(h());",
    "function h(){ let p=null; return String(p++) + p; } print(h());",
    "function h(){ var p; return String(p++) + p; } print(h());",
    "function h(){ let p='x'; return String(++p) + String(p--); } print(h());",
    "function h(){ let p=Symbol('s'); try { p++; } catch (e) { print(e.name); } return typeof p; } print(h());",
    "function h(){ let p=Symbol('s'); try { print(p--); } catch (e) { print(e.name); } try { ++p; } catch (e) { print(e.name); } return typeof p; } print(h());",
    "function h(){ let p={valueOf(){ throw 1; }}; try { p++; } catch (e) { print(e); } return typeof p; } print(h());",
    # temporal dead zone of register-resident lexicals
    "function f(k){ switch(k){ case 0: let y = 1; break; case 1: return y; } } try { print(f(1)); } catch(e) { print(e.name); }",
    "function f(k){ switch(k){ case 0: let y = 1; break; case 1: y = 2; return y; } } try { print(f(1)); } catch(e) { print(e.name); }",
    "function f(k){ switch(k){ case 0: const y = 1; break; case 1: return typeof y; } } try { print(f(1)); } catch(e) { print(e.name); }",
    "function f(k){ switch(k){ case 0: let y; break; case 1: return y; } } try { print(f(1)); } catch(e) { print(e.name); }",
    "function f(k){ switch(k){ case 0: class Y {} break; case 1: return typeof Y; } } try { print(f(1)); } catch(e) { print(e.name); }",
    "function f(){ { try { print(z); } catch (e) { print(e.name); } let z = 1; print(z); } } f();",
    "function f(){ for (let i = 0; i < 2; i++) { try { print(q); } catch (e) { print(e.name); } let q = i; } } f();",
    "function f(){ try { x = 1; } catch (e) { print(e.name); } let x; print(x); } f();",
    "function f(){ try { x++; } catch (e) { print(e.name); } let x = 1; print(x); } f();",
    "function f(a = b, b = 1){ return a; } try { print(f()); } catch (e) { print(e.name); }",
    "function f(){ const c = c + 1; } try { f(); } catch (e) { print(e.name); }",
    "function f(){ l: for (let i = 0; i < 2; i++) { if (i) { try { print(w); } catch (e) { print(e.name); } } let w = 1; continue l; } } f();",
    "function f(){ try { let [a2, b3 = a2] = [a2 + 1]; } catch (e) { print(e.name); } try { q = 1; let q; } catch (e) { print(e.name); } try { print(typeof z); let z; } catch (e) { print(e.name); } try { w++; let w = 1; } catch (e) { print(e.name); } } f();",
    "function f(){ try { let [a2, b3 = a2] = [a2 + 1]; } catch (e) { print(String(e)); } } f();",
    # direct eval in methods / fields / static blocks sees the enclosing function's variables
    "function f(){ let a=1; var o={m(){return eval('a')}}; return o.m() } try { print(f()); } catch (e) { print(e.name); }",
    "function f(){ let a=1; class C { m(){ return eval('a') } static s(){ return eval('a') } get g(){ return eval('a') } } return [new C().m(), C.s(), new C().g].join() } try { print(f()); } catch (e) { print(e.name); }",
    "function f(){ let a=1; var o = { get g(){ return eval('a') }, *gen(){ yield eval('a') }, [eval('a')]: 2 }; return [o.g, [...o.gen()].join(), o[1]].join() } try { print(f()); } catch (e) { print(e.name); }",
    "function f(){ let a=1; class C { x = eval('a'); static y = eval('a'); #p = eval('a'); static { print(eval('a')); } p(){ return this.#p } } return [new C().x, C.y, new C().p()].join() } try { print(f()); } catch (e) { print(e.name); }",
    "function f(){ let a=1; function g(){ return eval('a') } var h = function(){ return eval('a') }; return [g(), h(), (() => () => eval('a'))()()].join() } print(f());",
    # constants declared in switch clauses; constant bounds under with
    "function f(){ switch (1) { case 0: const y = 1; case 1: return y } } try { print(f()); } catch (e) { print(e.name); }",
    "function f(k){ switch (k) { case 0: const y = 7; print(y + 1); case 1: try { print(y + 1); } catch (e) { print(e.name); } default: try { print([y].join()); } catch (e) { print(e.name); } } } f(0); f(1); f(2);",
    "const M = 3; function f(){ var o = {M: 1}, i = 0; with (o) { while (i < M) { o.M = 5; i++; if (i > 8) break; } } return i; } print(f());",
    "function f(){ const M = 3; var o = {M: 1}, i = 0; with (o) { for (; i < M; i++) { o.M = 5; if (i > 8) break; } } return i; } print(f());",
    "function f(){ const M = 3; var o = {}, i = 0; with (o) { do { o.M = 1; i++; } while (i < M && i < 9); } return i; } print(f());",
    # loop bounds that are not declarative bindings of the function: globals, implicit globals, eval-introduced variables
    "var n = 5; function f(){ var out = []; for (var i = 0; i < n; i++) { out.push(i); if (i === 2) n = 3; } return out.join(); } print(f(), n);",
    "lim = 6; function f(){ var c = 0; for (let i = 0; i < lim; i++) { lim--; c++; } return c; } print(f(), lim);",
    "function f(){ eval('var e = 4'); var c = 0; while (c < e) { e--; c++; } return c; } print(f());",
    "let top = 4; function f(){ let c = 0; do { c++; top = 1; } while (c < top); return c; } print(f());",
    "function f(){ var c = 0; for (; c < g.lim; c++) { g.lim = 2; } return c; } function g(){} g.lim = 5; print(f());",
    # nested with statements: the outer object is consulted again after the inner statement ends
    "function f(){ let x = 'local'; var o = {x: 'property'}; with (o) { with ({}) { x; } return x; } } print(f());",
    "function f(){ let x = 1; var o = {x: 10}, r = []; with (o) { r.push(x); with ({y: 1}) { r.push(x + y); } x = 2; r.push(x); } r.push(x, o.x); return r.join(); } print(f());",
    "function f(){ let x = 1; var o = {}, r = []; with (o) { with ({}) {} o.x = 7; r.push(x); r.push(typeof x, [x, x + 1].join()); } return r.join(); } print(f());",
    # fused compare-and-branch with operands for which the comparison is undefined
    "function f(a, b){ var r = []; if (a >= b) r.push('ge'); else r.push('nge'); if (a <= b) r.push('le'); else r.push('nle'); if (a > b) r.push('gt'); else r.push('ngt'); if (a < b) r.push('lt'); else r.push('nlt'); return r.join(); } print(f(undefined, 1), f(NaN, NaN), f('a', 1), f({}, {}), f(1n, 'x'), f(null, 0), f('10', '9'), f(2n, 1.5));",
    "function f(a, b){ var c = 0; while (a >= b) { if (++c > 3) break; } for (; !(a < b); ) { if (++c > 6) break; } do { c += 10; } while (a > b && c < 50); return c; } print(f(undefined, 1), f(NaN, 0), f('x', 1), f(1, 1), f(2n, 1));",
    # constants
    "function f(){ const c = 1; try { c = 2; } catch (e) { print(e.name); } try { c++; } catch (e) { print(e.name); } return c; } print(f());",
    "const K = 5; function f(){ with ({K: 9}) { return K; } } print(f());",
    "const K = 5; function f(o){ let s = 0; with (o) { for (let i = 0; i < K; i++) s++; } return s; } print(f({K: 2}), f({}));",
    "function f(){ print(typeof C); const C = 1; } try { f(); } catch (e) { print(e.name); }",
    "function f(){ g(); const C = 1; function g(){ print(C); } } try { f(); } catch (e) { print(e.name); }",
    "const o = {n: 3}; function f(){ let s = 0; for (let i = 0; i < o.n; i++) { o.n--; s++; } return s; } print(f());",
    "function f(){ const lim = 3; let s = 0; for (let i = 0; i < lim; i++) s += i; return s; } print(f());",
    "let lim = 3; function f(){ let s = 0; for (let i = 0; i < lim; i++) { lim--; s++; } return s; } print(f());",
    "function f(){ let s = ''; for (let i = '0'; i < '2'; i += 1) s += i; return s; } print(f());",
    "function f(){ let s = 0; for (let i = 0n; i < 3; i++) s++; return s; } print(f());",
    "function f(){ let s = 0; for (let i = 0; i < {valueOf(){ print('vo'); return 2; }}; i++) s++; return s; } print(f());",
    "function f(){ let a = {valueOf(){ print('a'); return 1; }}, b = {valueOf(){ print('b'); return 2; }}; if (a < b) print('lt'); if (a > b) print('gt'); if (a <= b) print('le'); if (b >= a) print('ge'); } f();",
    "function f(){ let u; if (u < 1) print('a'); else print('b'); if (NaN >= NaN) print('c'); else print('d'); if (!(u < 1)) print('e'); } f();",
    # captures
    "function f(){ const fs = []; for (let i = 0; i < 3; i++) fs.push(() => i); return fs.map(g => g()).join(); } print(f());",
    "function f(){ const fs = []; for (let i = 0, g = () => i; i < 3; i++) fs.push(g); return fs.map(g => g()).join(); } print(f());",
    "function f(){ const fs = []; for (let i = 0; i < 3; fs.push(() => i), i++); return fs.map(g => g()).join(); } print(f());",
    "function f(a, b = () => a){ a = 5; return b(); } print(f(1));",
    "function f(a, b = () => a){ var a = 5; return b(); } print(f(1));",
    "function f(a){ arguments[0] = 9; return a; } print(f(1));",
    "function f(a){ a = 9; return arguments[0]; } print(f(1));",
    "function f(a){ 'use strict'; a = 9; return arguments[0]; } print(f(1));",
    "function f(){ let x = 1; eval('x = 2'); return x; } print(f());",
    "function f(){ let x = 1; (0, eval)('var x = 2'); return x; } print(f());",
    "function f(){ let x = 1; const g = new Function('return typeof x'); return g(); } print(f());",
    "function f(){ let x = 1; return (() => eval('x'))(); } print(f());",
    "function f(){ let x = 1; with ({x: 2}) { x = 3; } return x; } print(f());",
    "function f(){ let x = 1; with ({}) { x = 3; } return x; } print(f());",
    "function* f(){ let x = 1; yield x; x++; yield x; } print([...f()].join());",
    "function f(){ let x = 1; class C { m(){ return x; } static s = x + 1; } x = 5; return new C().m() + C.s; } print(f());",
    "function f(){ let x = 1; const o = { get g(){ return x; } }; x = 2; return o.g; } print(f());",
    "function f(){ let x = 1; try { throw 2; } catch (x) { x = 3; } return x; } print(f());",
    "function f(){ var x = 1; try { throw 2; } catch (x) { var x = 3; } return x; } print(f());",
    "function f(){ let r = []; for (let x of [1, 2]) { r.push(() => x); } return r.map(g => g()).join(); } print(f());",
    "function f(){ let r = []; for (const k in {a: 1, b: 2}) { r.push(() => k); } return r.map(g => g()).join(); } print(f());",
    "async function f(){ let x = 1; await null; x++; print(x); } f();",
    "function f(x){ { function x(){} } return typeof x; } print(f(1));",
    "function f(){ return typeof g; { function g(){} } } print(f());",
]

SUBSETS = [15, 1, 2, 4, 8, 14, 7]


def run(ck):
    ck.trusted_base += [
        "hook: boa_ast::scope::verif (the conservative switches are read where bindings are created and where the byte compiler "
        "chooses the shortcuts); the conservative configuration is the reference the property itself names",
        "the model's language (integers, assignment, branches, bounded loops, opaque outside calls) — what JavaScript adds "
        "(closures proper, eval, with, generators, temporal dead zone) is covered by the differential only",
    ]
    ck.prove("BoaVerif.C04.Theorems", driver="drv-c04")
    bins = ck.build_harness(["trace", "dump"])
    r = lib.rng(ck.seed)
    quick = ck.tier == "quick"

    def engine(progs, subsets, extra=""):
        cases = []
        for i, p in enumerate(progs):
            for b in [0] + subsets(i):
                cases.append(("p%d.%d" % (i, b), "cons=%d loop=2000 budget=3000000%s" % (b, extra), p))
        answers = ck.run_cases(bins["trace"], cases)
        res = {}
        for cid, d in answers.items():
            i, b = cid[1:].split(".")
            res.setdefault(int(i), {})[int(b)] = d
        return 0, res, ""

    # ---- (i) toy programs: model == engine(default) == engine(conservative); placement inclusion
    ntoy = 400 if quick else 6000
    toys = []
    for _ in range(ntoy):
        t = Toy(r)
        body = t.program()
        toys.append((body, t.tbl, ToJs(r).program(body, t.tbl)))
    reqs = ["run %s %s" % (",".join("%d:%d" % rw for rw in tbl) or "-", " ".join(toy_tokens(body))) for body, tbl, _ in toys]
    model = ck.driver("drv-c04", reqs)
    rc, res, err = engine([js for _, _, js in toys], lambda i: [15])
    # the engine's placement, read from the compiled code: names listed in main's binding table live in environments
    dsrc = []
    for i, (_, _, js) in enumerate(toys):
        dsrc.append("//// t%d" % i)
        dsrc.append(js)
    _, dout, _ = ck.run_bin(bins["dump"], input="\n".join(dsrc) + "\n")
    env_names = {}
    cur = None
    blk = None
    for l in dout.split("\n"):
        m = re.match(r"#### t(\d+) ", l)
        if m:
            cur = int(m.group(1))
            env_names[cur] = set()
            continue
        m = re.match(r"-+ Compiled Output: '(.*)' -+", l)
        if m:
            blk = m.group(1)
            continue
        m = re.match(r"\s+\d{4}: (v\d+), scope: (\w+)", l)
        if m and cur is not None and blk == "main":
            env_names[cur].add(m.group(1))
    bad_model = bad_eng = bad_place = 0
    in_regs = in_env = 0
    for i, ((body, tbl, js), m) in enumerate(zip(toys, model)):
        mm = re.match(r"ref=(\S*) opt=(\S*) regs=(\S*)$", m)
        if not mm:
            ck.model_drift({"input": reqs[i], "model": m, "implementation": "-"})
            bad_model += 1
            continue
        ref = [x for x in mm.group(1).split(",") if x != ""]
        if mm.group(1) != mm.group(2):
            ck.model_drift({"input": reqs[i], "model": m, "implementation": "the two machines of the model disagree (theorem table_programs_agree)"})
            bad_model += 1
        regs = set("v" + x for x in mm.group(3).split(",") if x)
        e0, e15 = res.get(i, {}).get(0), res.get(i, {}).get(15)
        if e0 is None or e15 is None:
            ck.fail_input({"site": "toy-harness", "input": js, "expected": "a result", "actual": "rc=%s %s" % (rc, err[-200:])})
            continue
        if e15["out"] != ref:
            # the conservative configuration is the reference: a difference here is between the model and JavaScript
            ck.model_drift({"input": js, "model": ref, "implementation": e15["out"], "note": "conservative configuration vs model"})
            bad_model += 1
        if e0["out"] != e15["out"] or e0["completion"] != e15["completion"]:
            bad_eng += 1
            ck.fail_input({"site": "toy-placement", "input": js, "expected": e15["out"], "actual": e0["out"], "config": "cons=0 vs cons=15"})
        # placement inclusion: a variable an outside function mentions must not be register-resident in main
        used = set(re.findall(r"\bv\d+\b", js.split("main() {")[1])) if "main() {" in js else set()
        for v in sorted(used):
            if v not in regs:
                in_env += 1
                if v not in env_names.get(i, set()):
                    bad_place += 1
                    ck.fail_input({"site": "escaping-variable-in-register", "input": js, "expected": "%s in main's environment bindings" % v,
                                   "actual": sorted(env_names.get(i, set()))})
            else:
                in_regs += 1 if v not in env_names.get(i, set()) else 0
    ck.oblige("correspondence:model reference trace == engine (conservative) == engine (default) on %d toy programs" % len(toys), "correspondence",
              bad_model == 0 and bad_eng == 0, "%d model / %d engine disagreements" % (bad_model, bad_eng) if bad_model or bad_eng else None)
    ck.oblige("correspondence:engine register placement ⊆ model placement (%d escaping uses in environments, %d variables in registers)" % (in_env, in_regs),
              "correspondence", bad_place == 0, "%d escaping variables kept in registers" % bad_place if bad_place else None)

    # ---- (ii) the property's differential
    progs = list(FIXED)
    ng = 500 if quick else 12000
    for _ in range(ng):
        progs.append(G4(r).program())
    nj = 150 if quick else 3000
    for _ in range(nj):
        p = jsgen.gen_program(r, 3 + r() % 2)
        progs.append("function main() {\n%s\n}\ntry { main(); } catch (e) { print('E:' + (e && e.name)); }" % p)
    rc, res, err = engine(progs, lambda i: SUBSETS if (i < len(FIXED) or i % 4 == 0 or not quick) else [15])
    diffs = skipped = 0
    first_diff = len(ck.failing)
    sites = {}
    feats = {"with": 0, "eval": 0, "switch": 0, "function*": 0, "=>": 0, "for (": 0, "while (": 0, "const ": 0}
    for i, p in enumerate(progs):
        for k in feats:
            feats[k] += k in p
        rs = res.get(i, {})
        base = rs.get(15)
        if base is None or 0 not in rs:
            ck.fail_input({"site": "harness", "input": p, "expected": "results", "actual": "rc=%s %s" % (rc, err[-200:])})
            continue
        aborted = [b for b, d in rs.items() if d["completion"].startswith("abort")]
        if aborted:
            if len(aborted) == len(rs):
                skipped += 1          # the program exhausts the memory limit whatever the configuration: a resource blow-up, not a placement effect
            else:
                ck.fail_input({"site": "abort-in-some-configurations", "input": p, "expected": "the same outcome in every configuration",
                               "actual": {str(b): d["completion"][:80] for b, d in rs.items()}})
            continue
        if any("budget" in d["completion"] or "panic" in d["completion"] for d in rs.values()):
            if any("panic" in d["completion"] for d in rs.values()):
                ck.fail_input({"site": "panic", "input": p, "expected": "no panic", "actual": [d["completion"] for d in rs.values()]})
            skipped += 1
            continue
        for b, d in sorted(rs.items()):
            if b == 15:
                continue
            if d["out"] != base["out"] or d["completion"] != base["completion"] or d["jobs"] != base["jobs"]:
                diffs += 1
                site = classify(p, base, d)
                sites[site] = sites.get(site, 0) + 1
                ck.fail_input({"site": site, "input": p, "config": "cons=%d vs cons=15" % b, "expected": {"out": base["out"], "completion": base["completion"]},
                               "actual": {"out": d["out"], "completion": d["completion"]}})
                break
    new_diffs = sum(1 for c in ck.failing[first_diff:] if not ck.match_known(c))
    ck.oblige("differential:trace(default) == trace(every conservative subset) on %d programs (%d fixed shapes, %d biased, %d general)" % (len(progs) - skipped, len(FIXED), ng, nj),
              "differential", new_diffs == 0, "%d differing programs not listed as known findings %s" % (new_diffs, sites) if new_diffs else None)
    ck.coverage.update({"toy_programs": len(toys), "programs": len(progs), "skipped_budget": skipped, "features": feats, "subsets": [0] + SUBSETS,
                        "toy_register_variables": in_regs, "toy_environment_uses": in_env})
    ck.finish()


TDZ_MSG = re.compile(r"ReferenceError: (access of uninitialized binding|[^ ]+ is not defined|cannot assign to uninitialized binding `[^`]*`)")


def classify(p, base, d):
    """the one difference the existing test suite pins: the TEXT of the temporal-dead-zone error"""
    norm = lambda out: [TDZ_MSG.sub("ReferenceError: <tdz>", l) for l in out]
    if norm(base["out"]) == norm(d["out"]) and base["completion"] == d["completion"]:
        return "tdz-message-differs"
    return "placement-differs"
