"""C05 — the AST optimizer (on by default) preserves semantics.
tie: (i) mechanism correspondence: boa's optimizer applied to parsed ASTs (dumped as S-expressions) must equal the
Lean model's optimizer on the same AST, for every option subset; (ii) the property's own differential: traces with
each option subset vs the optimizer disabled."""
import json

import lib

NAMES = ["a", "b", "c"]
FUNS = ["f", "g"]


class Gen:
    def __init__(self, r):
        self.r = r

    def pick(self, xs):
        return xs[self.r() % len(xs)]

    def lit(self):
        k = self.r() % 10
        if k < 5:
            return str(self.pick([0, 1, 2, 2, 3, 5, 7, 10, 100, 1000]))
        if k < 7:
            return self.pick(["true", "false"])
        if k < 8:
            return self.pick(["null", "undefined", "10n", "2n"])
        return self.pick(['"a"', '"b"', '""', '"ab"'])

    def expr(self, d):
        r = self.r
        if d <= 0 or r() % 5 == 0:
            return self.lit() if r() % 3 else self.pick(NAMES)
        k = r() % 100
        if k < 30:
            op = self.pick(["+", "+", "-", "*", "<", "<=", ">", ">=", "===", "!==", "==", "!=", "%"])
            if r() % 6 == 0:
                return "(%s %s %s)" % (self.pick(["1", "0", "2", "true", "false", "null", '"1"', '"0"', '""', '"a"']), self.pick(["==", "!=", "===", "!=="]),
                                       self.pick(["1", "0", "true", "false", "undefined", '"1"', '"0"', '""', '"2"']))
            return "(%s %s %s)" % (self.expr(d - 1), op, self.expr(d - 1))
        if k < 40:
            return "(%s %s %s)" % (self.expr(d - 1), self.pick(["&&", "||", "??"]), self.expr(d - 1))
        if k < 50:
            return "(%s, %s)" % (self.expr(d - 1), self.expr(d - 1))
        if k < 58:
            return "%s(%s)" % (self.pick(FUNS), self.expr(d - 1))
        if k < 66:
            return "(%s = %s)" % (self.pick(NAMES), self.expr(d - 1))
        if k < 76:
            return "(%s %s)" % (self.pick(["!", "typeof", "void", "-", "+"]), self.expr(d - 1))
        if k < 84:
            return "(%s / %s)" % (self.expr(d - 1), self.pick(["2", "2", "4", "10", "3", "6"]))
        if k < 92:
            return "(%s ** 2)" % (self.lit() if r() % 2 else self.expr(d - 1))
        return "%s %s %s" % (self.lit(), self.pick(["+", "*", "-", "<"]), self.lit())

    def stmt(self, d):
        r = self.r
        k = r() % 100
        if d <= 0 or k < 35:
            return self.expr(2 + r() % 2) + ";"
        if k < 55:
            c = self.pick(["true", "false", "1 < 2", "2 < 1", self.expr(1)])
            s = "if (%s) %s" % (c, self.block(d - 1))
            if r() % 2:
                s += " else %s" % self.block(d - 1)
            return s
        if k < 65:
            return "while (%s) %s" % (self.pick(["false", "2 < 1", "false"]), self.block(d - 1))
        if k < 75:
            init = self.pick(["", "", self.expr(1)])
            upd = self.pick(["", self.expr(1)])
            return "for (%s; %s; %s) %s" % (init, self.pick(["false", "1 > 2"]), upd, self.block(d - 1))
        if k < 85:
            return "var %s%s;" % (self.pick(NAMES + ["v", "w"]), (" = " + self.expr(2)) if r() % 2 else "")
        if k < 90:
            return "function %s(){}" % self.pick(["h1", "h2"])
        if k < 95:
            return ";"
        return self.block(d - 1)

    def block(self, d):
        n = self.r() % 3
        return "{ " + " ".join(self.stmt(d) for _ in range(n)) + " }"

    def program(self):
        return "\n".join(self.stmt(3) for _ in range(1 + self.r() % 4))


PRELUDE_D = r"""
var log = [];
function mk(n, v) { return { valueOf() { log.push('v' + n); return v; }, toString() { log.push('s' + n); return String(v); } }; }
var a = mk('a', 3), b = mk('b', 4n), c = 7;
Object.defineProperty(globalThis, 'gx', { get() { log.push('get gx'); return 5; }, configurable: true });
function f(x) { log.push('f'); return x; }
function g(x) { log.push('g'); return mk('r', 2); }
var ob = { p: 1, m() { return this === ob ? 'this=ob' : 'this=other'; } };
"""


def d_program(r):
    """richer programs for the differential: observable valueOf/toString/getter calls, BigInt mixes, literal conditions"""
    g = Gen(r)
    pool = ["a ** 2", "a / 2", "gx ** 2", "gx / 2", "b ** 2", "(a, gx)", "(1, f(2))", "(0 && f(1))", "('' || g(1))", "(null ?? a)",
            "(1n && a)", "(0n || f(3))", "(NaN && f(4))", "(-0 || f(5))", "typeof a", "void f(6)", "!a", "a + 1", "1 + a", "a < gx",
            "'5' * '2'", "'5' + 2", "2 ** 10", "7 % 3", "-7 % 3", "1 / 0", "(1, 2, f(7))", "c / 2", "c ** 2", "(a ** 2) ** 2",
            "10n / 2", "10n ** 2", "0.1 + 0.2", "2147483647 + 1", "(-2147483648) % (-1)".replace("%", "* 1 +"), "1 << 31", "'a' < 'b'", "null == undefined",
            "[] + 1", "f(1) / 2", "g(1) ** 2",
            "c / 10", "c / 6", "gx / 10", "3 / 10 + c / 10", "f(5) / 6", "c / 4", "a / 10", "(c / 10) * 3",
            "1 != '1'", "0 != ''", "true != 1", "null != void 0", "'1' == 1", "1n != 1", "'0x10' != 16", "0 == ''", "null == 0", "'a' != 'a'", "1 !== '1'",
            "(1 != '1') ? f(21) : f(22)", "(0 == '') && f(23)", "(null != void 0) || f(24)",
            "(0/0 || f(11))", "(0/0 && f(12))", "(+'abc' || f(13))", "('a'*1 && f(14))", "(-'x' ?? f(15))", "(1/0 && f(16))",
            "(0, ob.m)()", "('x', ob['m'])()", "(ob.m)()", "(0, ob.m).call(ob)", "delete (0, ob.p)", "typeof (0, ob.m)", "(1, 2, ob.m)()",
            "(null, eval)('1+1')", "(0, f)(17)", "(true && ob.m)()", "(false || ob.m)()", "(null ?? ob.m)()"]
    stmts = []
    for _ in range(2 + r() % 5):
        k = r() % 10
        e = pool[r() % len(pool)]
        if k < 5:
            stmts.append("try { print(String(%s)); } catch (e) { print('throw ' + e.constructor.name); }" % e)
        elif k < 7:
            c = ["true", "false", "1 < 2", "'' ", "0n"][r() % 5]
            stmts.append("if (%s) { print('T'); %s; } else { print('E'); var hv%d = 1; function hf%d(){} }" % (c, e, r() % 3, r() % 3))
        elif k < 8:
            stmts.append(["while (false) { var wv = %s; }" % e,
                          "for (var dw = 0; dw < 3; dw++) { do { if (dw == 1) continue; print('in ' + dw); } while (false); print('after ' + dw); }",
                          "for (var dv = 0; dv < 2; dv++) { do { f(30 + dv); if (dv) break; print('body ' + dv); } while (!1); print('next ' + dv); }",
                          "do { print('once'); } while (2 != '2'); lbl: do { print('L'); continue lbl; } while (false);",
                          "var dz = 0; do { dz++; if (dz < 3) continue; } while (0); print('dz ' + dz);"][r() % 5])
        elif k < 9:
            stmts.append("for (%s; false; f(9)) { print('never'); }" % (["", "f(8)", "var fv = f(10)", "let li = f(18)", "const lc = f(19)",
                                                                         "let [la] = [f(20)]"][r() % 6]))
            if r() % 2:
                stmts.append(["if (false) lb: for (var lv of []) {}", "if (false) for (var lw in {}) {}", "while (false) lb2: { var lx; }",
                              "if (false) { try { var ly; } catch (e) { var lz; } }", "if (0 > 1) { for (var i0 = 0;;) {} }",
                              "if (false) switch (1) { case 1: var sw1; }"][r() % 6])
                stmts.append("print(['lv','lw','lx','ly','lz','i0','sw1'].map(function(n){ try { (0, eval)(n); return n + ':declared'; } "
                             "catch (e) { return n + ':' + e.constructor.name; } }).join(' '));")
        else:
            stmts.append("print(typeof hv0, typeof hf1, typeof wv, typeof fv);")
    tail = ["print(log.join(','));", "1; " + ["if (false) {}", "while (false);", "if (true) {} else {2}", "for (;false;);", "2;"][r() % 5]]
    return PRELUDE_D + "\n".join(stmts + tail)


def run(ck):
    ck.trusted_base += [
        "harness AST dumper (harness/src/bin/c05.rs) and the S-expression reader of the Lean driver",
        "the literal arithmetic itself is a parameter of the theorems (S.Laws: x/2 = x*0.5, x**2 = x*x, truthiness of booleans); "
        "the driver's concrete instance is exact only on small integers / booleans / strings, programs leaving that domain are dropped and counted",
    ]
    ck.prove("BoaVerif.C05.Theorems", driver="drv-c05")
    bins = ck.build_harness(["c05", "trace"])
    r = lib.rng(ck.seed)
    quick = ck.tier == "quick"
    g = Gen(r)
    # ---- (i) mechanism: AST -> AST
    progs = [g.program() for _ in range(700 if quick else 15000)]
    subsets = [14, 2, 4, 8, 6, 10, 12]
    src = []
    for i, p in enumerate(progs):
        src.append("//// p%d opt=%d" % (i, subsets[i % len(subsets)] if i % 3 else 14))
        src.append(p)
    rc, out, err = ck.run_bin(bins["c05"], input="\n".join(src) + "\n")
    dumps = [json.loads(l) for l in out.splitlines() if l.startswith("{")]
    if rc != 0 or len(dumps) != len(progs):
        ck.fail_input({"site": "c05-harness", "input": progs[len(dumps)] if len(dumps) < len(progs) else "?", "expected": "a dump",
                       "actual": "rc=%s %s" % (rc, err[-300:])})
    reqs, idx = [], []
    unsupported = parse_err = 0
    for i, d in enumerate(dumps):
        if "error" in d:
            parse_err += 1
            continue
        if "unsupported" in d["before"]:
            unsupported += 1
            continue
        bits = subsets[i % len(subsets)] if i % 3 else 14
        reqs.append("opt %d %s" % (bits, d["before"]))
        idx.append(i)
    model = ck.driver("drv-c05", reqs)
    ood = changed = bad = 0
    rules = {"fold": 0, "dce": 0, "strength": 0}
    for q, m, i in zip(reqs, model, idx):
        d = dumps[i]
        if "OOD" in m or m in ("unsupported", "bad-op"):
            ood += 1
            continue
        if d["after"] != d["before"]:
            changed += 1
        if "3fe0000000000000" in d["after"] and "3fe0000000000000" not in d["before"]:
            rules["strength"] += 1
        if d["after"].count("(if ") + d["after"].count("(while ") + d["after"].count("(for ") < d["before"].count("(if ") + d["before"].count("(while ") + d["before"].count("(for "):
            rules["dce"] += 1
        if d["after"].count("(bin ") < d["before"].count("(bin "):
            rules["fold"] += 1
        if m != d["after"]:
            bad += 1
            if bad <= 5:
                ck.model_drift({"input": progs[i], "options": q.split()[1], "model": m, "implementation": d["after"]})
    ck.oblige("correspondence:boa optimizer == Lean Opt on %d ASTs (all option subsets)" % (len(reqs) - ood), "correspondence",
              bad == 0, "%d disagreements" % bad if bad else None)
    # ---- (ii) the property's differential
    dprogs = [d_program(r) for _ in range(250 if quick else 5000)] + [PRELUDE_D + p + "\nprint(log.join(','));" for p in progs[:150 if quick else 3000]]
    src = []
    for i, p in enumerate(dprogs):
        for bits in (0, 14, 2, 4, 8, 6):
            src.append("//// d%d.%d opt=%d" % (i, bits, bits))
            src.append(p)
    rc, out, err = ck.run_bin(bins["trace"], input="\n".join(src) + "\n")
    res = {}
    for l in out.splitlines():
        if l.startswith("{"):
            j = json.loads(l)
            res[j["id"]] = (j["out"], j["completion"])
    dbad = 0
    sites = {}
    for i, p in enumerate(dprogs):
        base = res.get("d%d.0" % i)
        if base is None:
            continue
        for bits in (14, 2, 4, 8, 6):
            got = res.get("d%d.%d" % (i, bits))
            if got is None or got == base:
                continue
            # attribute: only the completion value differs, and it differs only when dead-code elimination is on
            site = "optimizer-differential"
            if got[0] == base[0] and bits & 8 and res.get("d%d.6" % i) == base and res.get("d%d.2" % i) == base and res.get("d%d.4" % i) == base:
                site = "dce-completion-value"
            dbad += 1
            sites[site] = sites.get(site, 0) + 1
            ck.fail_input({"site": site, "input": p[len(PRELUDE_D):] if p.startswith(PRELUDE_D) else p, "options": bits,
                           "expected": {"out": base[0], "completion": base[1]}, "actual": {"out": got[0], "completion": got[1]},
                           "oracle": "same program with OptimizerOptions::empty()"})
            break
    ck.coverage.update({
        "evaluations": len(reqs) + len(res),
        "distinct_nontrivial": changed,
        "rule": "(i) %d generated programs of the modelled fragment parsed by boa, optimized by boa and by the Lean model under 7 option "
                "subsets; non-trivial = the optimizer changed the AST. (ii) %d programs x 6 option subsets traced in the engine "
                "(observable valueOf/toString/getter logs, BigInt mixes, literal conditions with hoisted declarations)" % (len(progs), len(dprogs)),
        "asts_compared": len(reqs) - ood, "asts_out_of_model_domain": ood, "asts_unsupported_syntax": unsupported, "parse_errors": parse_err,
        "rewrites_seen": rules,
        "differential_programs": len(dprogs), "differential_disagreements": dbad, "differential_sites": sites, "drift_samples": ck.drift[:3],
        "samples": [progs[0], progs[1], dprogs[0][len(PRELUDE_D):]],
        "partial": ["completion values of statements are outside the model's exec (known finding C05-dce-completion)",
                    "the model fragment has one-argument calls, simple assignments and no property access; other syntax is only covered by the differential"],
    })
