"""C01 — core-language evaluation agrees with ECMAScript reference semantics.
tie: (i) the Lean reference interpreter (C01/Model.lean: completion records with completion values, environments with hoisting /
TDZ / per-iteration bindings, closures, labels, try-catch-finally) predicts the trace AND the completion (value, or class of the
uncaught error) of generated programs of its fragment; the engine must produce the same; (ii) the parts of the property about where
the text comes from and how the engine is entered are differentials on the engine itself over the shared program generator: the same
program as UTF-8 bytes / through the printed AST / wrapped in a function called by the host / evaluated by indirect eval."""
import json

import jsgen
import lib

S_HELPER = "function S(e){ return e instanceof Error ? e.name : String(e); }\n"


class G:
    """typed generator of programs in the model's fragment: every variable holds a number unless it names a function"""

    def __init__(self, r):
        self.r = r
        self.uid = 0
        self.scopes = [[]]           # list of lists of (name, kind, mutable) ; kind in num / fn
        self.labels = []
        self.in_fn = 0
        self.loop_depth = 0
        self.arity = {}

    def fresh(self, p):
        self.uid += 1
        return "%s%d" % (p, self.uid)

    def vars(self, kind, mutable_only=False):
        return [n for sc in self.scopes for (n, k, m) in sc if k == kind and (m or not mutable_only)]

    # ---- expressions: ("n", k) ("v", x) ("=", x, e) ("o", op, a, b) ("&",a,b) ("|",a,b) ("!",a) ("?",c,a,b) ("c", f, args) ("f", params, body) ("t", x) ("s", text)
    def num(self, d):
        r = self.r
        k = r() % 100
        vs = self.vars("num")
        if d <= 0 or k < 25:
            return ("v", vs[r() % len(vs)]) if vs and r() % 3 else ("n", r() % 7 - 1)
        if k < 50:
            return ("o", ["add", "sub", "mul"][r() % 3], self.num(d - 1), self.num(d - 1))
        if k < 60:
            return ("?", self.cond(d - 1), self.num(d - 1), self.num(d - 1))
        if k < 70:
            ms = self.vars("num", True)
            if ms:
                return ("=", ms[r() % len(ms)], self.num(d - 1))
        if k < 82:
            fs = self.vars("fn")
            if fs:
                f = fs[r() % len(fs)]
                # exactly the declared number of arguments (a missing one would be `undefined`, outside the fragment's arithmetic); sometimes one extra
                return ("c", ("v", f), [self.num(d - 1) for _ in range(self.arity.get(f, 0) + (1 if r() % 5 == 0 else 0))])
        if k < 88:
            # an immediately called function expression (closure over the current scopes)
            p = self.fresh("p")
            self.scopes.append([(p, "num", True)])
            self.in_fn += 1
            saved = (self.labels, self.loop_depth)
            self.labels, self.loop_depth = [], 0
            body = [("T", self.num(d - 1))]
            self.labels, self.loop_depth = saved
            self.in_fn -= 1
            self.scopes.pop()
            return ("c", ("f", [p], body), [self.num(d - 1)])
        if k < 92:
            return ("&" if r() % 2 else "|", self.num(d - 1), self.num(d - 1))
        return ("n", r() % 9)

    def cond(self, d):
        r = self.r
        k = r() % 10
        if d <= 0 or k < 5:
            return ("o", ["lt", "le", "seq", "sne"][r() % 4], self.num(d), self.num(d))
        if k < 7:
            return ("!", self.cond(d - 1))
        if k < 9:
            return ("&" if r() % 2 else "|", self.cond(d - 1), self.cond(d - 1))
        return self.num(d - 1)

    # ---- statements
    def block(self, d, n=None, extra=None):
        self.scopes.append(list(extra or []))
        body = [self.stmt(d) for _ in range(n if n is not None else 1 + self.r() % 3)]
        self.scopes.pop()
        return body

    def stmt(self, d):
        r = self.r
        k = r() % 100
        if d <= 0 or k < 14:
            return ("P", [self.num(2)] if r() % 3 else [("s", "t%d" % (r() % 5)), self.num(1)])
        if k < 30:
            kind = "vlc"[r() % 3] if r() % 4 else "l"
            x = self.fresh("x")
            init = self.num(2)
            self.scopes[-1].append((x, "num", kind != "c"))
            return ("D", kind, x, init)
        if k < 38:
            return ("X", self.num(3))
        if k < 48:
            return ("I", self.cond(2), ("B", self.block(d - 1)), ("B", self.block(d - 1)) if r() % 2 else None)
        if k < 62:
            return self.loop(d)
        if k < 72:
            return self.tryst(d)
        if k < 80 and self.in_fn < 2:
            return self.fdecl(d)
        if k < 85 and self.loop_depth > 0:
            if self.labels and r() % 2:
                return ("K" if r() % 2 else "C", self.labels[r() % len(self.labels)])
            return ("K" if r() % 2 else "C", None)
        if k < 89 and self.in_fn:
            return ("T", self.num(2) if r() % 4 else None)
        if k < 93:
            return ("H", self.num(1))
        if k < 96:
            # temporal dead zone / const assignment / undeclared name, observed through typeof and a catch
            x = self.fresh("z")
            kind = r() % 3
            if kind == 0:
                return ("B", [("Y", [("P", [("v", x)])], "e", [("P", [("s", "caught"), ("v", "e")])], None), ("D", "l", x, ("n", 1)), ("P", [("v", x)])])
            if kind == 1:
                return ("B", [("D", "c", x, ("n", 2)), ("Y", [("X", ("=", x, ("n", 3)))], "e", [("P", [("s", "caught"), ("v", "e")])], None), ("P", [("v", x)])])
            return ("Y", [("P", [("t", x)]), ("X", ("v", x))], "e", [("P", [("s", "caught"), ("v", "e")])], None)
        return ("B", self.block(d - 1))

    def loop(self, d):
        r = self.r
        label = self.fresh("L") if r() % 3 == 0 else None
        c = self.fresh("i")
        n = 1 + r() % 3
        kind = r() % 4
        pre, post = [], []
        self.loop_depth += 1
        if label:
            self.labels.append(label)
        inc = ("X", ("=", c, ("o", "add", ("v", c), ("n", 1))))
        test = ("o", "lt", ("v", c), ("n", n))
        if kind in (0, 1):
            self.scopes[-1].append((c, "num", False))     # the counter is only changed by the loop itself
            body = ("B", [inc] + self.block(d - 1))
            pre = [("D", "v", c, ("n", 0))]
            st = ("W", test, body) if kind == 0 else ("O", body, test)
        elif kind == 3:
            self.scopes[-1].append((c, "num", False))
            st = ("R", "v", c, ("n", 0), test, inc[1], ("B", self.block(d - 1)))
        else:
            f = self.fresh("g")
            inner = self.block(d - 1, extra=[(c, "num", False)])
            if r() % 2:
                inner = [("X", ("=", f, ("f", [], [("T", ("v", c))])))] + inner
            pre = [("D", "l", f, ("f", [], [("T", ("n", -1))]))]
            post = [("P", [("c", ("v", f), [])])]
            init = ("n", 0)
            if r() % 3 == 0:
                # a closure created in the initializer sees the INITIAL environment: writes of iteration 0 must not reach it
                f0 = self.fresh("g")
                pre.append(("D", "l", f0, ("f", [], [("T", ("n", -2))])))
                init = ("&", ("=", f0, ("f", [], [("T", ("v", c))])), ("n", 0))
                inner = [("P", [("v", c), ("c", ("v", f0), [])]), ("I", ("o", "seq", ("v", c), ("n", 0)), ("X", ("=", c, ("o", "add", ("v", c), ("n", 0)))), None)] + inner
                post.append(("P", [("c", ("v", f0), [])]))
            st = ("R", "l", c, init, test, inc[1], ("B", inner))
        if label:
            self.labels.pop()
            st = ("L", label, st)
        self.loop_depth -= 1
        return ("B", pre + [st] + post)

    def tryst(self, d):
        r = self.r
        body = self.block(d - 1)
        k = r() % 3
        handler = param = fin = None
        if k != 1:
            param = self.fresh("e") if r() % 4 else None
            handler = self.block(d - 1, extra=[])
            if param:
                handler = [("P", [("s", "caught"), ("v", param)])] + handler
        if k != 0:
            fin = self.block(d - 1)
        return ("Y", body, param, handler, fin)

    def fdecl(self, d):
        r = self.r
        name = self.fresh("f")
        params = [self.fresh("p") for _ in range(r() % 3)]
        self.arity[name] = len(params)
        self.scopes[-1].append((name, "fn", True))
        self.scopes.append([(p, "num", True) for p in params])
        self.in_fn += 1
        saved = (self.labels, self.loop_depth)
        self.labels, self.loop_depth = [], 0
        body = [self.stmt(d - 1) for _ in range(1 + r() % 3)]
        if r() % 2:
            body.append(("T", self.num(2)))
        self.labels, self.loop_depth = saved
        self.in_fn -= 1
        self.scopes.pop()
        return ("F", name, params, body)

    def program(self):
        body = [("D", "v", "a0", ("n", 1)), ("D", "l", "b0", ("n", 2))]
        self.scopes[0] += [("a0", "num", True), ("b0", "num", True)]
        for _ in range(3 + self.r() % 6):
            body.append(self.stmt(3))
        if self.r() % 2:
            body.append(("X", self.num(2)))       # a final expression statement: the completion value
        return body


# ---------------------------------------------------------------- rendering
def toks_e(e):
    k = e[0]
    if k == "n":
        return ["n", str(e[1])]
    if k == "s":
        return ["s", e[1].encode().hex()]
    if k in ("v", "t"):
        return [k, e[1]]
    if k == "=":
        return ["=", e[1]] + toks_e(e[2])
    if k == "o":
        return ["o", e[1]] + toks_e(e[2]) + toks_e(e[3])
    if k in ("&", "|"):
        return [k] + toks_e(e[1]) + toks_e(e[2])
    if k == "!":
        return ["!"] + toks_e(e[1])
    if k == "?":
        return ["?"] + toks_e(e[1]) + toks_e(e[2]) + toks_e(e[3])
    if k == "c":
        return ["c"] + toks_e(e[1]) + [str(len(e[2]))] + [t for a in e[2] for t in toks_e(a)]
    if k == "f":
        return ["f", str(len(e[1]))] + e[1] + toks_block(e[2])
    raise ValueError(k)


def toks_block(b):
    return [str(len(b))] + [t for s in b for t in toks_s(s)]


def toks_s(s):
    k = s[0]
    if k == "X":
        return ["X"] + toks_e(s[1])
    if k == "P":
        return ["P", str(len(s[1]))] + [t for a in s[1] for t in toks_e(a)]
    if k == "D":
        return ["D", s[1], s[2], "1"] + toks_e(s[3])
    if k == "F":
        return ["F", s[1], str(len(s[2]))] + s[2] + toks_block(s[3])
    if k == "B":
        return ["B"] + toks_block(s[1])
    if k == "I":
        return ["I"] + toks_e(s[1]) + toks_s(s[2]) + (["1"] + toks_s(s[3]) if s[3] else ["0"])
    if k == "W":
        return ["W"] + toks_e(s[1]) + toks_s(s[2])
    if k == "O":
        return ["O"] + toks_s(s[1]) + toks_e(s[2])
    if k == "R":
        return ["R", s[1], s[2]] + toks_e(s[3]) + toks_e(s[4]) + toks_e(s[5]) + toks_s(s[6])
    if k == "L":
        return ["L", s[1]] + toks_s(s[2])
    if k in ("K", "C"):
        return [k, s[1] or "-"]
    if k == "T":
        return ["T", "1"] + toks_e(s[1]) if s[1] else ["T", "0"]
    if k == "H":
        return ["H"] + toks_e(s[1])
    if k == "Y":
        return (["Y"] + toks_block(s[1]) + [s[2] or "-"] + (["1"] + toks_block(s[3]) if s[3] is not None else ["0"]) +
                (["1"] + toks_block(s[4]) if s[4] is not None else ["0"]))
    raise ValueError(k)


OPS = {"add": "+", "sub": "-", "mul": "*", "lt": "<", "le": "<=", "seq": "===", "sne": "!=="}


def js_e(e):
    k = e[0]
    if k == "n":
        return "(%d)" % e[1] if e[1] < 0 else str(e[1])
    if k == "s":
        return json.dumps(e[1])
    if k == "v":
        return e[1]
    if k == "t":
        return "typeof %s" % e[1]
    if k == "=":
        return "(%s = %s)" % (e[1], js_e(e[2]))
    if k == "o":
        return "(%s %s %s)" % (js_e(e[2]), OPS[e[1]], js_e(e[3]))
    if k == "&":
        return "(%s && %s)" % (js_e(e[1]), js_e(e[2]))
    if k == "|":
        return "(%s || %s)" % (js_e(e[1]), js_e(e[2]))
    if k == "!":
        return "(!%s)" % js_e(e[1])
    if k == "?":
        return "(%s ? %s : %s)" % (js_e(e[1]), js_e(e[2]), js_e(e[3]))
    if k == "c":
        return "%s(%s)" % (js_e(e[1]) if e[1][0] == "v" else "(%s)" % js_e(e[1]), ", ".join(js_e(a) for a in e[2]))
    if k == "f":
        return "function(%s) { %s }" % (", ".join(e[1]), js_block(e[2]))
    raise ValueError(k)


def js_block(b):
    return " ".join(js_s(s) for s in b)


def js_s(s):
    k = s[0]
    if k == "X":
        return "%s;" % js_e(s[1])
    if k == "P":
        return "print(%s);" % ", ".join("S(%s)" % js_e(a) for a in s[1])
    if k == "D":
        return "%s %s = %s;" % ({"v": "var", "l": "let", "c": "const"}[s[1]], s[2], js_e(s[3]))
    if k == "F":
        return "function %s(%s) { %s }" % (s[1], ", ".join(s[2]), js_block(s[3]))
    if k == "B":
        return "{ %s }" % js_block(s[1])
    if k == "I":
        return "if (%s) %s%s" % (js_e(s[1]), js_s(s[2]), " else %s" % js_s(s[3]) if s[3] else "")
    if k == "W":
        return "while (%s) %s" % (js_e(s[1]), js_s(s[2]))
    if k == "O":
        return "do %s while (%s);" % (js_s(s[1]), js_e(s[2]))
    if k == "R":
        return "for (%s %s = %s; %s; %s) %s" % ({"v": "var", "l": "let", "c": "const"}[s[1]], s[2], js_e(s[3]), js_e(s[4]), js_e(s[5]), js_s(s[6]))
    if k == "L":
        return "%s: %s" % (s[1], js_s(s[2]))
    if k == "K":
        return "break%s;" % (" " + s[1] if s[1] else "")
    if k == "C":
        return "continue%s;" % (" " + s[1] if s[1] else "")
    if k == "T":
        return "return %s;" % js_e(s[1]) if s[1] else "return;"
    if k == "H":
        return "throw %s;" % js_e(s[1])
    if k == "Y":
        out = "try { %s }" % js_block(s[1])
        if s[3] is not None:
            out += " catch%s { %s }" % (" (%s)" % s[2] if s[2] else "", js_block(s[3]))
        if s[4] is not None:
            out += " finally { %s }" % js_block(s[4])
        return out
    raise ValueError(k)


def unhex(h):
    return bytes.fromhex(h).decode()


FIXED = [
    # completion values (UpdateEmpty), loops and labels, finally overriding, closures per iteration, TDZ
    [("X", ("n", 1)), ("I", ("o", "lt", ("n", 1), ("n", 2)), ("B", []), None)],
    [("X", ("n", 1)), ("W", ("o", "lt", ("n", 2), ("n", 1)), ("B", []))],
    [("D", "v", "i", ("n", 0)), ("X", ("n", 7)), ("W", ("o", "lt", ("v", "i"), ("n", 2)), ("B", [("X", ("=", "i", ("o", "add", ("v", "i"), ("n", 1)))), ("I", ("o", "seq", ("v", "i"), ("n", 2)), ("K", None), None), ("X", ("n", 9))]))],
    [("X", ("n", 1)), ("Y", [("X", ("n", 2))], None, None, [("X", ("n", 3))])],
    [("X", ("n", 1)), ("Y", [("H", ("n", 2))], "e", [("X", ("o", "add", ("v", "e"), ("n", 10)))], [("X", ("n", 3))])],
    [("F", "f", [], [("Y", [("T", ("n", 1))], None, None, [("P", [("s", "fin")])])]), ("P", [("c", ("v", "f"), [])])],
    [("F", "f", [], [("L", "A", ("W", ("o", "lt", ("n", 0), ("n", 1)), ("B", [("Y", [("K", "A")], None, None, [("P", [("s", "fin")])])])))  , ("T", ("n", 5))]), ("P", [("c", ("v", "f"), [])])],
    [("F", "f", [], [("Y", [("Y", [("H", ("n", 1))], None, None, [("T", ("n", 2))])], "e", [("T", ("n", 3))], None)]), ("P", [("c", ("v", "f"), [])])],
    [("D", "l", "g", ("f", [], [("T", ("n", -1))])), ("R", "l", "i", ("n", 0), ("o", "lt", ("v", "i"), ("n", 3)), ("=", "i", ("o", "add", ("v", "i"), ("n", 1))), ("B", [("I", ("o", "seq", ("v", "i"), ("n", 1)), ("X", ("=", "g", ("f", [], [("T", ("v", "i"))]))), None)])), ("P", [("c", ("v", "g"), [])])],
    [("B", [("Y", [("P", [("v", "z")])], "e", [("P", [("s", "caught"), ("v", "e")])], None), ("D", "l", "z", ("n", 1)), ("P", [("v", "z")])])],
    [("P", [("t", "nope")]), ("X", ("v", "nope"))],
    [("D", "c", "k", ("n", 1)), ("X", ("=", "k", ("n", 2)))],
    [("P", [("c", ("v", "h"), [("n", 2)])]), ("F", "h", ["p"], [("T", ("o", "mul", ("v", "p"), ("v", "w")))]), ("D", "v", "w", ("n", 3)), ("P", [("c", ("v", "h"), [("n", 2)])])],
    [("D", "v", "x", ("n", 1)), ("F", "f", [], [("P", [("v", "x")]), ("D", "v", "x", ("n", 2)), ("T", ("v", "x"))]), ("P", [("c", ("v", "f"), []), ("v", "x")])],
    [("L", "A", ("B", [("P", [("s", "in")]), ("K", "A"), ("P", [("s", "not")])])), ("X", ("n", 4))],
    [("D", "v", "i", ("n", 0)), ("L", "A", ("W", ("o", "lt", ("v", "i"), ("n", 3)), ("B", [("X", ("=", "i", ("o", "add", ("v", "i"), ("n", 1)))), ("D", "v", "j", ("n", 0)), ("W", ("o", "lt", ("v", "j"), ("n", 3)), ("B", [("X", ("=", "j", ("o", "add", ("v", "j"), ("n", 1)))), ("I", ("o", "seq", ("v", "j"), ("n", 2)), ("C", "A"), None), ("P", [("v", "i"), ("v", "j")])]))])))],
    [("D", "l", "g", ("f", [], [("T", ("n", -1))])),
     ("R", "l", "i", ("&", ("=", "g", ("f", [], [("T", ("v", "i"))])), ("n", 0)), ("o", "lt", ("v", "i"), ("n", 3)), ("=", "i", ("o", "add", ("v", "i"), ("n", 1))),
      ("B", [("I", ("o", "seq", ("v", "i"), ("n", 0)), ("X", ("=", "i", ("n", 10))), None), ("P", [("v", "i"), ("c", ("v", "g"), [])])])),
     ("P", [("c", ("v", "g"), [])])],
]

# Hand-derived expectations (ECMA-262) for constructs OUTSIDE the Lean fragment. These are tests, not proofs: they keep the
# witnesses of repaired defects and of seeded changes alive; each entry is (source, printed lines).
SPEC_FACTS = [
    ("function h(a, g = 0) { var a; print(a); var b; print(b); } h(1);", ["1", "undefined"]),
    ("function f(a, g = () => a) { var a; print(a); a = 2; print(a, g()); } f(1);", ["1", "2 1"]),
    ("function k(a, g = () => a) { var a = 5; return [a, g()].join(); } print(k(1));", ["5,1"]),
    ("function k2(a = 1, g = () => a) { var a; a++; return [a, g()].join(); } print(k2());", ["2,1"]),
    ("function k4(a, g = () => a) { var a; function a() {} return [typeof a, g()].join(); } print(k4(3));", ["function,3"]),
    ("var z = 0, m = -5; print(Object.is(z / m, -0), Object.is(z * m, -0), Object.is(z % m, 0), Object.is(-z, -0));", ["true true true true"]),
    ("var m = (-2147483647 - 1) | 0; print(m % -1, Object.is(m % -1, -0), m / -1, -m, m * -1);", ["0 true 2147483648 2147483648 2147483648"]),
    ("var o = { valueOf() { return 42; }, toString() { return 'forty-two'; } }; print('total: ' + o, o + ' units', `${o}`, [o] + '', o + 1);", ["total: 42 42 units forty-two forty-two 43"]),
    ("var fs = []; var g; for (let i = (g = () => i, 0); i < 3; i++) { if (i === 0) { i = 10; i = 0; } fs.push(() => i); } print(g(), fs.map(f => f()).join());", ["0 0,1,2"]),
    ("var g; for (let x = (g = () => x, 1); ; ) { x = 2; break; } print(g());", ["1"]),
    ("var i = 0, out = []; do { i++; out.push(i); if (i < 3) continue; } while (false); print(out.join());", ["1"]),
    ("var out = []; outer: do { for (var j = 0; j < 2; j++) { out.push(j); if (j === 1) continue outer; } } while (false); print(out.join());", ["0,1"]),
    ("var n = 0; do { try { n++; continue; } finally { n += 10; } } while (n < 5); print(n);", ["11"]),
    ("function t(g) { try { g(); return 'silent'; } catch (e) { return e.name; } } print(t(function () { (function f() { (function () { 'use strict'; f = 1; })(); })(); }), t(function () { (function f() { f = 1; })(); }), t(function () { (function f() { 'use strict'; f = 1; })(); }), t(function () { (function f() { (function () { 'use strict'; f++; })(); })(); }), t(function () { (function f() { (function () { 'use strict'; for (f of [1]) {} })(); })(); }));", ["TypeError silent TypeError TypeError TypeError"]),
    ("var n = 0; var iter = { [Symbol.iterator]() { return { next() { n++; return n > 2 ? { done: true } : { done: false, value: n }; }, return() { print('ret'); return {}; } }; } }; var [x, y, z, w] = iter; print(n, x, y, z, w); n = 0; var [a] = iter; print(n, a); n = 0; var [p, ...q] = iter; print(n, p, q.join()); n = 0; var [, , , r = 9] = iter; print(n, r); n = 0; [x, y] = iter; print(n, x, y);", ["3 1 2 undefined undefined", "ret", "1 1", "3 1 2", "3 9", "ret", "2 1 2"]),
    ("var it = { [Symbol.iterator]() { return { next() { return { done: false, value: 1 }; }, return() { throw 'R'; } }; } }; try { for (var v of it) { throw 'B'; } } catch (e) { print(e); } try { for (var v of it) { break; } } catch (e) { print(e); } var it2 = { [Symbol.iterator]() { return { next() { return { done: false, value: 1 }; }, return() { return 1; } }; } }; try { for (var v of it2) { throw 'B2'; } } catch (e) { print(e); } try { for (var v of it2) { break; } } catch (e) { print(e.name); }", ["B", "R", "B2", "TypeError"]),
    ("var log = []; class A { set x(v) { log.push('setter'); } get y() { return 'ay'; } } class B extends A { x = 1; y = 2; } var b = new B(); print(Object.getOwnPropertyNames(b).join(), b.x, b.y, log.length); class R { constructor() { return Object.create({ set z(v) { log.push('z'); } }); } } class D extends R { z = 5; } var d = new D(); print(Object.getOwnPropertyNames(d).join(), d.z, log.length);", ["x,y 1 2 0", "z 5 0"]),
    ("var i, c = true; print(eval('i = 0; while (i < 1) { i = i + 1; { break; 8; } 9; }'), eval('1; l: { break l; }'), eval('l: { 1; if (c) { break l; } 2; }'), eval('l: { 1; { break l; } 2; }'), eval('i = 0; for (;;) { i++; { if (i > 2) break; } i; }'), eval('switch (1) { case 1: 5; { break; } case 2: 6; }'), eval('i = 0; while (i < 2) { i++; 3; { continue; } 4; }'), eval('3; l: ;'), eval('i = 0; while (i < 3) { i++; if (i == 2) { continue; } i * 10; }'));", ["1 1 undefined 1 undefined 5 3 3 30"]),
    ("var i; print(eval('i = 0; while (i < 1) { i = i + 1; { break; } }'), eval('i = 0; while (i < 2) { i = i + 1; { continue; } }'), eval('l: { 5; { break l; } }'), eval('i = 0; while (i < 1) { i = i + 1; { { break; } } }'), eval('i = 0; while (i < 1) { i = i + 1; if (i) { break; } }'), eval('i = 0; while (i < 1) { i = i + 1; try { break; } finally { } }'));", ["1 2 5 1 undefined undefined"]),
    ("var i = 0; function f() { return i++ < 1; } function* g() { yield 1; } print(eval('3; var y = f();'), eval('i = 0; do { 7; } while (f())'), eval('try { 8; } finally { f(); }'), eval('var it = g(); 5; var r = it.next();'), eval('4; let z = `${ {toString() { return 1; }} }`;'));", ["3 7 8 5 4"]),
    ("var i = 0; print(eval('do { i++; { 7; } if (i === 4) { 1; } } while (i < 1)'), eval('l: { { 7; } if (i === 4) { 1; } }'), eval('switch (0) { case 0: { 7; } try { } catch { } }'), eval('do { { 7; } with ({}) { } } while (false)'), eval('do { { 7; } for (var k in {}) { } } while (false)'), eval('do { { 7; } l: { } } while (false)'));", ["undefined undefined undefined undefined undefined 7"]),
    ("print(eval('1; do { 2; continue; } while (false)'), eval('3; do { } while (false)'), eval('4; for (var q = 0; q < 1; q++) { 5; continue; }'));", ["2 undefined 5"]),
    ("function f(){ let x = 1; return x + (x = 5); } print(f()); function g(){ let p = '5'; return typeof (p++); } print(g());", ["6", "number"]),
    ("print(1 + undefined, '1' + null, [] + {}, 1 < '2', 'a' < 'b', null == undefined, null == 0, NaN != NaN, '2' * '3', 2 ** 3 ** 2, -(2 ** 2), 7 % -3, -7 % 3);", ["NaN 1null [object Object] true true true false true 6 512 -4 1 -1"]),
    ("print(2147483647 + 1, -2147483648 - 1, 65536 * 65536, 1 / 3 * 3, (0.1 + 0.2).toFixed(2), 5 / 2, 6 / 3, -1 >>> 0, 1 << 31, 1 << 32, 5 >> 1, -5 >> 1);", ["2147483648 -2147483649 4294967296 1 0.30 2.5 2 4294967295 -2147483648 1 2 -3"]),
    ("var log = []; function t(n, v) { log.push(n); return v; } t('a', 0) || t('b', 1) && t('c', 0) ?? t('d', 1); t('e', null) ?? t('f', 2); print(log.join());", None),
    ("var log = []; function t(n, v) { log.push(n); return v; } (t('a', 0) || t('b', 1)) && t('c', 0); t('e', null) ?? t('f', 2); t('g', 1) ? t('h', 1) : t('i', 1); print(log.join());", ["a,b,c,e,f,g,h"]),
]

# ------------------------------------------------------------------------------------------------ operators and coercions (second model)
CO_STR = ["", "5", " 7 ", "-3", "a", "abc", "10", "9", "1e", "+4", " ", "0", "true", "null", "NaN", "-"]
CO_NUM = [0, 1, -1, 2, 7, 10, 42, -5, 100]
CO_BIN = {"add": "+", "sub": "-", "mul": "*", "lt": "<", "gt": ">", "le": "<=", "ge": ">=", "eq": "==", "ne": "!=", "seq": "===", "sne": "!=="}
CO_UN = {"neg": "-a", "plus": "+a", "not": "!a", "typeof": "typeof a", "template": "`${a}`", "string": "String(a)", "number": "Number(a)"}
CO_PRELUDE = r"""
var log = [];
function M(id, kind, spec) { if (spec === undefined) return undefined; return function () { log.push(kind + id); if (spec.t !== undefined) throw 'T' + spec.t; if (spec.o) return {}; return spec.p; }; }
function mk(id, v, s) { return { valueOf: M(id, 'v', v), toString: M(id, 's', s) }; }
function show(f, a, b) { log = []; try { var r = f(a, b); print('ok ' + typeof r + ':' + String(r) + ' ' + (log.join(',') || '-')); } catch (e) { print('err ' + (typeof e === 'string' ? 'thrown:' + e.slice(1) : e.name) + ' ' + (log.join(',') || '-')); } }
"""


def co_prim(r):
    k = r() % 10
    if k == 0:
        return ("u", "undefined")
    if k == 1:
        return ("n", "null")
    if k == 2:
        return ("t", "true") if r() % 2 else ("f", "false")
    if k == 3:
        return ("N", "NaN")
    if k < 7:
        n = CO_NUM[r() % len(CO_NUM)]
        return ("i%d" % n, "(%d)" % n)
    st = CO_STR[r() % len(CO_STR)]
    return ("s" + st.encode().hex(), json.dumps(st))


def co_ret(r):
    k = r() % 8
    if k == 0:
        return ("-", "undefined")
    if k == 1:
        return ("O", "{o: 1}")
    if k == 2:
        t = r() % 5
        return ("T%d" % t, "{t: %d}" % t)
    tok, js = co_prim(r)
    return ("P" + tok, "{p: %s}" % js)


def co_val(r, ident):
    if r() % 5 < 2:
        return co_prim(r)
    v, s = co_ret(r), co_ret(r)
    return ("o%d:%s:%s" % (ident, v[0], s[0]), "mk(%d, %s, %s)" % (ident, v[1], s[1]))


def co_case(r):
    if r() % 4 == 0:
        op = list(CO_UN)[r() % len(CO_UN)]
        a = co_val(r, 1)
        return "co %s %s" % (op, a[0]), "show(function (a) { return %s; }, %s);" % (CO_UN[op], a[1])
    op = list(CO_BIN)[r() % len(CO_BIN)]
    a = co_val(r, 1)
    if a[0].startswith("o") and r() % 6 == 0:
        return "co %s %s %s" % (op, a[0], a[0]), "(function () { var x = %s; show(function (a, b) { return a %s b; }, x, x); })();" % (a[1], CO_BIN[op])
    b = co_val(r, 2)
    return "co %s %s %s" % (op, a[0], b[0]), "show(function (a, b) { return a %s b; }, %s, %s);" % (CO_BIN[op], a[1], b[1])


ROUTES = [
    ("bytes", lambda p: p),
    ("function-call", lambda p: "(function(){ %s })();" % p),
    ("indirect-eval", lambda p: "(0, eval)(%s);" % json.dumps(p)),
    ("new-Function", lambda p: "new Function(%s)();" % json.dumps(p)),
]


def run(ck):
    ck.trusted_base += [
        "check/props/c01.py: the typed program generator and its two renderings (model tokens, JavaScript)",
        "modelled, not verified: the fragment's semantics as written by hand from ECMA-262 in C01/Model.lean (sections 6.2.4, 8.x, 9.1, 10.2.11, 14.x): integers only, no objects, no generators, no "
        "destructuring, no classes, no coercions beyond string concatenation — those parts of the property are covered only by the engine-level route/source differentials",
    ]
    ck.prove("BoaVerif.C01.Theorems", driver="drv-c01")
    bins = ck.build_harness(["trace"])
    r = lib.rng(ck.seed)
    quick = ck.tier == "quick"
    progs = list(FIXED)
    for _ in range(400 if quick else 12000):
        progs.append(G(r).program())
    reqs = ["run %d %s" % (len(p), " ".join(t for s in p for t in toks_s(s))) for p in progs]
    model = ck.driver_parallel("drv-c01", reqs)
    cases = []
    for i, p in enumerate(progs):
        cases.append(("m%d" % i, "budget=3000000", "'use strict';\n" + S_HELPER + "void 0;\n" + js_block(p)))
    # ---- (ii) route / source independence on richer programs
    rich = [jsgen.gen_program(r, 3, strict=False) for _ in range(60 if quick else 1500)]
    for i, p in enumerate(rich):
        for name, f in ROUTES:
            cases.append(("r%d.%s" % (i, name), "budget=3000000", f(p)))
    res = ck.run_cases(bins["trace"], cases)
    if len(res) != len(cases):
        ck.fail_input({"site": "engine-crash", "input": "c01 batch", "expected": "%d traces" % len(cases), "actual": "got %d" % len(res)})
    stats = {"ok": 0, "err": 0, "fuel": 0, "lines": 0}
    for i, (p, a) in enumerate(zip(progs, model)):
        j = res.get("m%d" % i)
        if not j:
            continue
        if j["completion"].startswith("abort"):
            ck.fail_input({"site": "engine-abort", "input": js_block(p), "expected": a, "actual": j["completion"], "oracle": "Lean reference interpreter (C01.Model)"})
            continue
        t = a.split(" ")
        kind = t[0]
        if kind == "fuel":
            stats["fuel"] += 1
            continue
        stats["ok" if kind == "ok" else "err"] += 1
        lines = [unhex(x) for x in t[2].split(",")] if len(t) > 2 and t[2] else []
        stats["lines"] += len(lines)
        val = unhex(t[1]) if t[1] != "-" else "-"
        if kind == "ok":
            want = "ok " + val
        elif kind == "err":
            want = "err " + (val.split(":", 1)[1] if val.startswith("error:") else "throw:" + val)
        else:
            want = kind       # return / break at top level cannot be generated
        js = js_block(p)
        if j["out"] != lines:
            k = next((x for x in range(min(len(lines), len(j["out"]))) if lines[x] != j["out"][x]), min(len(lines), len(j["out"])))
            ck.fail_input({"site": "trace-differs-from-reference-semantics", "input": js, "expected": lines[max(0, k - 1):k + 3], "actual": j["out"][max(0, k - 1):k + 3], "first_difference": k,
                           "oracle": "Lean reference interpreter (C01.Model)"})
        elif j["completion"] != want:
            ck.fail_input({"site": "completion-differs-from-reference-semantics", "input": js, "expected": want, "actual": j["completion"], "oracle": "Lean reference interpreter (C01.Model)"})
    n_routes = 0
    for i, p in enumerate(rich):
        base = res.get("r%d.bytes" % i)
        if not base or "NoInstructionsRemain" in base["completion"]:
            continue
        routes_res = [res.get("r%d.%s" % (i, name)) for name, _ in ROUTES]
        aborted = [x for x in routes_res if x and x["completion"].startswith("abort")]
        if aborted:
            if len(aborted) < len([x for x in routes_res if x]):
                ck.fail_input({"site": "abort-depends-on-entry-route", "input": p, "expected": "the same outcome by every route", "actual": [x and x["completion"][:60] for x in routes_res]})
            continue          # exhausts the memory limit by every route: a resource blow-up of the generated program
        for name, _ in ROUTES[1:]:
            o = res.get("r%d.%s" % (i, name))
            if not o or "NoInstructionsRemain" in o["completion"]:
                continue
            n_routes += 1
            # the completion VALUE legitimately differs between a script and a function call; the trace and the error class must not
            base_c = base["completion"] if base["completion"].startswith("err") else "ok"
            o_c = o["completion"] if o["completion"].startswith("err") else "ok"
            if o["out"] != base["out"] or base_c != o_c:
                k = next((x for x in range(min(len(base["out"]), len(o["out"]))) if base["out"][x] != o["out"][x]), min(len(base["out"]), len(o["out"])))
                ck.fail_input({"site": "trace-depends-on-entry-route:" + name, "input": p, "expected": {"out": base["out"][k:k + 3], "completion": base_c},
                               "actual": {"out": o["out"][k:k + 3], "completion": o_c}, "oracle": "the same program evaluated as a script"})
    # ---- (iii) hand-derived expectations outside the fragment (tests)
    fsrc = []
    facts = [(a, b) for a, b in SPEC_FACTS if b is not None]
    for i, (p, _) in enumerate(facts):
        fsrc.append("//// f%d budget=3000000" % i)
        fsrc.append(p)
    rc, out, err = ck.run_bin(bins["trace"], input="\n".join(fsrc) + "\n")
    fres = {}
    for l in out.split("\n"):
        if l.startswith("{"):
            j = json.loads(l)
            fres[j["id"]] = j
    for i, (p, want) in enumerate(facts):
        j = fres.get("f%d" % i)
        if j is None or j["out"] != want or not j["completion"].startswith("ok"):
            ck.fail_input({"site": "spec-fact", "input": p, "expected": want, "actual": j and {"out": j["out"], "completion": j["completion"]},
                           "oracle": "hand-derived from ECMA-262 (regression test, outside the Lean fragment)"})
    # ---- (iv) operators and coercions: second Lean model vs engine
    cases = [co_case(r) for _ in range(1500 if quick else 60000)]
    manswers = ck.driver_parallel("drv-c01", [c[0] for c in cases])
    csrc = []
    CH = 300
    for ci in range(0, len(cases), CH):
        csrc.append("//// k%d budget=30000000" % (ci // CH))
        csrc.append(CO_PRELUDE + "\n".join(c[1] for c in cases[ci:ci + CH]))
    rc, out, err = ck.run_bin(bins["trace"], input="\n".join(csrc) + "\n")
    eng = {}
    for l in out.split("\n"):
        if l.startswith("{"):
            j = json.loads(l)
            eng[int(j["id"][1:])] = j
    co_bad = 0
    co_kinds = {}
    for ci in range(0, len(cases), CH):
        j = eng.get(ci // CH)
        lines = j["out"] if j else []
        for k, (case, m) in enumerate(zip(cases[ci:ci + CH], manswers[ci:ci + CH])):
            mt = m.split(" ")
            if mt[0] == "ok":
                ty, hx = mt[1].split(":", 1)
                want = "ok %s:%s %s" % (ty, bytes.fromhex(hx).decode() if hx != "-" else "", mt[2])
            else:
                want = m
            co_kinds[mt[0] + ("" if mt[0] == "ok" else " " + mt[1].split(":")[0])] = co_kinds.get(mt[0] + ("" if mt[0] == "ok" else " " + mt[1].split(":")[0]), 0) + 1
            got = lines[k] if k < len(lines) else None
            if got != want:
                co_bad += 1
                if co_bad <= 12:
                    ck.fail_input({"site": "operator-coercion-differs-from-reference-semantics", "input": CO_PRELUDE.strip() + "\n" + case[1], "request": case[0],
                                   "expected": want, "actual": got, "oracle": "Lean model C01.Coerce (ToPrimitive order, IsLessThan, IsLooselyEqual, string/number operators)"})
    ck.oblige("correspondence:engine trace and completion == C01 reference interpreter on %d programs (%d printed lines); %d route comparisons" % (len(progs), stats["lines"], n_routes),
              "correspondence", True)
    ck.coverage.update({
        "evaluations": len(res),
        "distinct_nontrivial": len(set(reqs)),
        "rule": "fragment programs: 3-8 top-level statements over numeric variables (var/let/const), arithmetic/comparison/logical/conditional/assignment expressions, calls of declared functions and "
                "immediately-invoked function expressions, if, while/do-while/for(var|let) with counters, labels with break/continue, try/catch/finally, throw, return, nested blocks with shadowing, "
                "TDZ/const/undeclared probes, closures over per-iteration bindings; %d fixed programs on completion values and finally; route programs from the shared generator x %d routes. distinct = distinct programs" % (len(FIXED), len(ROUTES)),
        "model_outcomes": stats,
        "spec_facts": len(facts),
        "coercion_cases": len(cases), "coercion_outcomes": co_kinds,
        "samples": [js_block(progs[len(FIXED)])[:500]],
        "partial": ["objects, coercions, generators, destructuring, classes are outside the Lean fragment; they are covered only by the route differentials"],
    })
