"""C13 — number <-> text conversions are exact.
The conversions themselves live in external crates (ryu-js, fast_float2) wrapped by boa's formatting code, so the tie is a
verified result checker: for every conversion the engine performs on the generated inputs, the exact-arithmetic relations of the
Lean model (accepts / shortestOk / closestOk, whose meaning is fixed by the theorems rounding_unique, accepts_convex,
no_coarser_on_grid, radix_roundtrip) are evaluated by the Lean driver on the engine's own answer. Text-level formatting rules
(where the point / exponent goes) are checked against an independent statement of ECMA-262 in this file."""
import re
import struct

import lib

INF = 0x7FF0000000000000
SIGN = 1 << 63


def hx(s):
    return s.encode().hex() or "-"


def bits_of(x):
    return struct.unpack(">Q", struct.pack(">d", x))[0]


def magnitude_units(b):
    """N(b): magnitude in units of 2^-1074 (python mirror, only used to BUILD inputs, never to judge)"""
    e, f = b >> 52, b & ((1 << 52) - 1)
    return f if e == 0 else ((1 << 52) + f) << (e - 1)


def parse_decimal(text):
    """text of digits[.digits][e[+-]digits] -> (d, k) with value d * 10^k, or None"""
    m = re.fullmatch(r"(\d*)(?:\.(\d*))?(?:[eE]([+-]?\d+))?", text)
    if not m or (not m.group(1) and not m.group(2)):
        return None
    ip, fp, ex = m.group(1) or "", m.group(2) or "", int(m.group(3) or "0")
    return int(ip + fp or "0"), ex - len(fp)


def sig_digits(text):
    """engine output of a positive finite number -> (s, n, k): value = s * 10^(n-k), k = number of digits of s"""
    d, k10 = parse_decimal(text)
    if d == 0:
        return 0, 0, 0
    s = str(d).rstrip("0")
    k10 += len(str(d)) - len(s)
    return int(s), k10 + len(s), len(s)


def format_number(s, n, k):
    """ECMA-262 Number::toString(x, 10) steps 6-11 given the digits"""
    ds = str(s)
    if k <= n <= 21:
        return ds + "0" * (n - k)
    if 0 < n <= 21:
        return ds[:n] + "." + ds[n:]
    if -6 < n <= 0:
        return "0." + "0" * (-n) + ds
    e = n - 1
    es = ("+" if e >= 0 else "-") + str(abs(e))
    if k == 1:
        return ds + "e" + es
    return ds[0] + "." + ds[1:] + "e" + es


def interesting_doubles(r, count):
    out = [1, 2, 0x3FF0000000000000, 0x3FB999999999999A, 0x3FD3333333333334, 0x7FEFFFFFFFFFFFFF, 0x0010000000000000, 0x000FFFFFFFFFFFFF,
           0x4340000000000000, 0x4340000000000001, 0x433FFFFFFFFFFFFF, bits_of(1e21), bits_of(1e21) - 1, bits_of(1e-6), bits_of(1e-7), bits_of(123456789012345680000.0),
           bits_of(5e-324), bits_of(1.7976931348623157e308), bits_of(4.35), bits_of(0.000001), bits_of(1e23), bits_of(8.41e21), bits_of(2.0 ** 70), bits_of(9007199254740993.0),
           bits_of(0.5), bits_of(1.005), bits_of(1.45), bits_of(8.345), bits_of(2.5), bits_of(1e300), bits_of(123.456), bits_of(0.1 + 0.7)]
    for e in range(0, 2047, 37):
        out += [e << 52, (e << 52) | 1, (e << 52) | ((1 << 52) - 1)]
    while len(out) < count:
        k = r() % 10
        if k < 5:
            out.append(r() % INF)
        elif k < 7:
            out.append(bits_of(float(r() % 10 ** (1 + r() % 17)) / 10 ** (r() % 12)))
        elif k < 8:
            out.append(bits_of(float(r() % (1 << 53))))
        elif k < 9:
            out.append((r() % 64) << 52 | (r() & ((1 << 52) - 1)))       # tiny / subnormal range
        else:
            out.append((0x7FE - r() % 40) << 52 | (r() & ((1 << 52) - 1)))  # huge
    return [b for b in out if 0 < b < INF]


def midpoint_decimal(b):
    """exact decimal (d, k) of the midpoint between b and b+1"""
    m = magnitude_units(b) + magnitude_units(b + 1)       # units of 2^-1075
    return m * 5 ** 1075, -1075


def run(ck):
    ck.trusted_base += [
        "the digit-generation and parsing algorithms are external crates (ryu-js, fast_float2) plus boa's wrappers: nothing of them is modelled; "
        "each individual result is checked against the exact-arithmetic relations of C13/Model.lean by the Lean driver",
        "this file: extraction of digits/exponent from the engine's text, generation of decimal texts and of their exact (d, k) value, "
        "and the ECMA-262 placement rules for point and exponent (format_number)",
    ]
    ck.prove("BoaVerif.C13.Theorems", driver="drv-c13")
    bins = ck.build_harness(["c13"])
    r = lib.rng(ck.seed)
    quick = ck.tier == "quick"
    dbl = interesting_doubles(r, 1500 if quick else 40000)
    reqs = []       # (engine request, kind, payload)
    # ---- Number -> String (both signs), toExponential() with no argument uses the same digits
    for b in dbl:
        reqs.append(("tostr %016x" % b, "tostr", b))
        if r() % 8 == 0:
            reqs.append(("tostr %016x" % (b | SIGN), "tostr-neg", b))
    for b in dbl[: len(dbl) // 6]:
        reqs.append(("exp %016x -" % b, "exp-shortest", b))
    # ---- String -> Number: the engine's own output, midpoints and their neighbours, many-digit numerals, exponent forms
    texts = []
    for b in dbl[: len(dbl) // 3]:
        d, k = midpoint_decimal(b)
        for delta in (0, -1, 1):
            texts.append(("%de%d" % (d + delta, k), d + delta, k))
    for _ in range(len(dbl) // 2):
        nd = 1 + r() % (40 if r() % 4 else 400)
        d = r() % 10 ** nd if nd < 19 else int("".join(str(r() % 10) for _ in range(nd)))
        k = (r() % 700) - 350 - nd // 2 if r() % 3 else -(r() % (nd + 3))
        style = r() % 4
        if style == 0 or k > 0:
            t = "%de%d" % (d, k)
        elif style == 1:
            ds = str(d).rjust(-k + 1, "0")
            t = ds[:k] + "." + ds[k:] if k else ds
        elif style == 2:
            t = "%d.%se%d" % (d // 10, d % 10, k + 1)
        else:
            t = ".%de%d" % (d, k + len(str(d))) if d else "0"
            d, k = (int(str(d)), k) if d else (0, 0)
            t = "." + str(d) + "e" + str(k + len(str(d)))
        texts.append((t, d, k))
    for t, d, k in texts:
        reqs.append(("num " + hx(t), "num", (t, d, k)))
        if r() % 5 == 0:
            reqs.append(("lit " + hx(t), "num", (t, d, k)))
        if r() % 5 == 0:
            reqs.append(("pf " + hx(t + "xyz"), "num", (t, d, k)))
    for t, v in (("Infinity", None), ("-Infinity", None), ("  12  ", (12, 0)), ("0x1F", (31, 0)), ("0b101", (5, 0)), ("0o17", (15, 0)), ("1e1000", (1, 1000)),
                 ("1e-1000", (1, -1000)), ("0x20000000000001", (0x20000000000001, 0)), ("", (0, 0)), ("1_0", "nan"), ("1e", "nan"), ("0x", "nan"), (".", "nan"), ("+.5", (5, -1)),
                 ("-0", (0, 0)), ("1.e1", (1, 1)), ("00012", (12, 0)), ("12abc", "nan"), ("١٢", "nan")):
        reqs.append(("num " + hx(t), "num-special", (t, v)))
    for t, v in (("0x1F", (31, 0)), ("0b101", (5, 0)), ("0o17", (15, 0)), ("1_000", (1000, 0)), ("0x20_0000_0000_0001", (0x20000000000001, 0)), ("1e3", (1, 3)), (".5e1", (5, 0)),
                 ("0.0000001", (1, -7)), ("0b" + "1" * 70, (2 ** 70 - 1, 0)), ("0o" + "7" * 30, (8 ** 30 - 1, 0)), ("017", (15, 0)), ("089", (89, 0)), ("9007199254740993", (9007199254740993, 0))):
        reqs.append(("lit " + hx(t), "num-special", (t, v)))
    # ---- non-decimal integer numerals beyond 2^53: the value must be rounded once, not digit by digit
    for _ in range(150 if quick else 4000):
        nbits = 54 + r() % 40
        v = (1 << (nbits - 1)) | (r() % (1 << (nbits - 1)))
        if r() % 3 == 0:
            v = (v >> 6 << 6) | (r() % 64)          # long run of kept bits then a few low ones: double-rounding shapes
        if r() % 4 == 0:
            v = (1 << (nbits - 1)) + (1 << (nbits - 54)) + 1 + r() % 3     # just above a tie
        kind_ = r() % 3
        t = [("0x%x" % v), ("0o%o" % v), ("0b" + bin(v)[2:])][kind_]
        if r() % 4 == 0:
            t = t[:2].upper() + t[2:].upper() if kind_ == 0 else t[:2].upper() + t[2:]
        reqs.append(("num " + hx(t), "num-special", (t, (v, 0))))
        lt = t
        if r() % 3 == 0 and len(t) > 6:
            lt = t[:5] + "_" + t[5:]
        reqs.append(("lit " + hx(lt), "num-special", (lt, (v, 0))))
    # ---- integers in every radix
    ints = [0, 1, 35, 36, 255, 2 ** 31, 2 ** 32 - 1, 2 ** 53 - 1, 2 ** 53, 10 ** 15 + 7] + [r() % (1 << (1 + r() % 53)) for _ in range(300 if quick else 6000)]
    for n in ints:
        rad = 2 + r() % 35
        reqs.append(("radix %016x %d" % (bits_of(float(n)), rad), "radix", (n, rad)))
    # ---- toFixed / toExponential(f) / toPrecision(p)
    for b in dbl[: len(dbl) // 2]:
        f = r() % 25 if r() % 6 else r() % 101
        reqs.append(("fixed %016x %d" % (b, f), "fixed", (b, f)))
        f = r() % 22 if r() % 6 else r() % 101
        reqs.append(("exp %016x %d" % (b, f), "exp", (b, f)))
        p = 1 + (r() % 22 if r() % 6 else r() % 100)
        reqs.append(("prec %016x %d" % (b, p), "prec", (b, p)))

    rc, out, err = ck.run_bin(bins["c13"], input="\n".join(q for q, _, _ in reqs) + "\n")
    ans = out.splitlines()
    if rc != 0 or len(ans) != len(reqs):
        ck.fail_input({"site": "engine-crash", "input": "c13 batch", "expected": "%d answers" % len(reqs), "actual": "rc=%s, %d answers: %s" % (rc, len(ans), err[-300:])})
        ans += ["missing"] * (len(reqs) - len(ans))

    lean, owner = [], []
    stats = {}

    def ask(line, idx, what):
        lean.append(line)
        owner.append((idx, what))

    def bad(idx, site, expected, actual):
        q, kind, payload = reqs[idx]
        ck.fail_input({"site": site, "input": q, "decoded": str(payload)[:300], "expected": expected, "actual": actual,
                       "oracle": "exact-arithmetic relation of C13/Model.lean evaluated by the Lean driver + ECMA-262 text layout"})

    pending_radix = {}
    for i, ((q, kind, payload), a) in enumerate(zip(reqs, ans)):
        stats[kind] = stats.get(kind, 0) + 1
        if a == "panic" or a == "missing":
            bad(i, "engine-panic", "a result", a)
            continue
        if kind in ("tostr", "tostr-neg", "exp-shortest"):
            b = payload
            if not a.startswith("s "):
                bad(i, "tostring-not-a-string", "string", a)
                continue
            text = a[2:]
            if kind == "tostr-neg":
                if not text.startswith("-"):
                    bad(i, "tostring-sign", "leading -", text)
                    continue
                text = text[1:]
            try:
                s, n, k = sig_digits(text)
            except Exception:
                bad(i, "tostring-unparsable", "decimal numeral", text)
                continue
            if kind == "exp-shortest":
                want = format_exponential(s, n, k)
            else:
                want = format_number(s, n, k)
            if text != want:
                bad(i, "tostring-layout", want, text)
                continue
            ask("short %016x %d %d %d" % (b, s, n, k), i, "shortest")
        elif kind == "num":
            t, d, k = payload
            if not a.startswith("n "):
                bad(i, "tonumber-not-a-number", "number", a)
                continue
            b = int(a[2:], 16)
            if b & SIGN or (b > INF):
                bad(i, "tonumber-sign-or-nan", "a non-negative number", a)
                continue
            ask("acc %016x %d %d" % (b, d, k), i, "rounding")
        elif kind == "num-special":
            t, v = payload
            if v is None:
                want = {"Infinity": INF, "-Infinity": INF | SIGN}[t]
                if a != "n %016x" % want:
                    bad(i, "tonumber-special", "%016x" % want, a)
            elif v == "nan":
                if not (a.startswith("n ") and int(a[2:], 16) & ~SIGN > INF) and not a.startswith("throw SyntaxError"):
                    bad(i, "tonumber-accepts-invalid", "NaN (or an early SyntaxError for a literal)", a)
            else:
                if not a.startswith("n "):
                    bad(i, "tonumber-not-a-number", "number", a)
                    continue
                b = int(a[2:], 16) & ~SIGN
                ask("acc %016x %d %d" % (b, v[0], v[1]), i, "rounding")
        elif kind == "radix":
            n, rad = payload
            if not a.startswith("s "):
                bad(i, "radix-not-a-string", "string", a)
                continue
            ask("digits %d %d" % (rad, n), i, ("radix-text", a[2:]))
            ask("ofdigits %d %s" % (rad, a[2:] or "0"), i, ("radix-value", n))
        elif kind in ("fixed", "exp", "prec"):
            b, arg = payload
            if not a.startswith("s "):
                bad(i, kind + "-not-a-string", "string", a)
                continue
            text = a[2:]
            chk = check_digits(kind, b, arg, text)
            if isinstance(chk, str):
                bad(i, kind + "-layout", chk, text)
            elif chk is not None:
                ask("closest %016x %d %d %d" % ((b,) + chk), i, "closest")
    answers = ck.driver("drv-c13", lean) if lean else []
    for (idx, what), a in zip(owner, answers):
        q, kind, payload = reqs[idx]
        if what == "shortest" and a != "1":
            bad(idx, "tostring-not-shortest-roundtrip", "shortestOk", ans[idx])
        elif what == "rounding" and a != "1":
            bad(idx, "tonumber-not-correctly-rounded", "accepts (round-to-nearest-even of the exact decimal)", ans[idx])
        elif what == "closest" and a != "1":
            site = kind + "-digits-not-closest"
            if kind == "fixed" and magnitude_units(payload[0]) < (1 << (1074 - 44)):
                # ryu-js format_to_fixed: leading nine-digit blocks are not zero-filled for magnitudes below 2^-44
                site = "fixed-small-magnitude"
            bad(idx, site, "closestOk (nearest n, ties to the larger)", ans[idx])
        elif isinstance(what, tuple) and what[0] == "radix-text" and a != what[1]:
            bad(idx, "radix-text", a, what[1])
        elif isinstance(what, tuple) and what[0] == "radix-value" and a != str(what[1]):
            bad(idx, "radix-value", str(what[1]), a)
    ck.oblige("correspondence:every conversion result satisfies the model's exact relation (%d engine results, %d Lean decisions)" % (len(reqs), len(lean)),
              "correspondence", True)
    ck.coverage.update({
        "evaluations": len(reqs),
        "distinct_nontrivial": len(set(q for q, _, _ in reqs)),
        "rule": "doubles: fixed hard cases (powers of two, subnormals, 2^53+1, 1e21/1e-7 layout boundaries, max) + every 37th exponent with extreme fractions + random bit "
                "patterns, short decimals, integers, tiny and huge ranges; texts: exact midpoints between adjacent doubles (up to 770 digits) and their two neighbours, random "
                "numerals of 1-400 digits in four layouts, special forms; integers x radix 2..36; toFixed/toExponential/toPrecision with 0..100 digits. distinct = distinct requests",
        "by_kind": stats,
        "lean_decisions": len(lean),
        "samples": [reqs[0][0], reqs[len(reqs) // 2][0]],
        "partial": ["non-integer toString(radix) and parseInt beyond 20 significant digits are implementation-approximated in ECMA-262 and not checked",
                    "the conversion algorithms themselves (ryu-js, fast_float2) are checked per result, not verified"],
    })


def format_exponential(s, n, k):
    ds = str(s)
    e = n - 1
    es = ("+" if e >= 0 else "-") + str(abs(e))
    return (ds if k == 1 else ds[0] + "." + ds[1:]) + "e" + es


def check_digits(kind, b, arg, text):
    """-> None (nothing to ask), a string (layout complaint), or (n, num, den) for closestOk"""
    if kind == "fixed":
        f = arg
        x_ge_1e21 = magnitude_units(b) >= 10 ** 21 << 1074
        if x_ge_1e21:
            return None                     # toFixed falls back to ToString (checked by the tostr cases)
        m = re.fullmatch(r"(\d+)(?:\.(\d+))?", text)
        if not m or len(m.group(2) or "") != f or (len(m.group(1)) > 1 and m.group(1)[0] == "0"):
            return "digits with exactly %d fraction digits" % f
        n = int(m.group(1) + (m.group(2) or ""))
        return n, 10 ** f, 1
    if kind == "exp":
        f = arg
        m = re.fullmatch(r"(\d)(?:\.(\d+))?e([+-]\d+)", text)
        if not m or len(m.group(2) or "") != f or m.group(1) == "0":
            return "d.ddd e±x with exactly %d fraction digits" % f
        n = int(m.group(1) + (m.group(2) or ""))
        e = int(m.group(3))
        sh = f - e
        return (n, 10 ** sh, 1) if sh >= 0 else (n, 1, 10 ** (-sh))
    p = arg
    m = re.fullmatch(r"(\d)(?:\.(\d+))?e([+-]\d+)", text)
    if m:
        if len(m.group(2) or "") != p - 1 or m.group(1) == "0":
            return "exponential form with %d significant digits" % p
        n = int(m.group(1) + (m.group(2) or ""))
        e = int(m.group(3))
        if not (e < -6 or e >= p):
            return "fixed notation for exponent %d" % e
    else:
        m2 = re.fullmatch(r"(\d+)(?:\.(\d+))?", text)
        if not m2:
            return "a decimal numeral"
        digits = (m2.group(1) + (m2.group(2) or "")).lstrip("0")
        if len(digits) != p:
            return "%d significant digits" % p
        n = int(digits)
        e = (len(m2.group(1).lstrip("0")) - 1) if m2.group(1).strip("0") else -(len(m2.group(2)) - len(m2.group(2).lstrip("0")) + 1)
        if e < -6 or e >= p:
            return "exponential notation for exponent %d" % e
    sh = p - 1 - e
    return (n, 10 ** sh, 1) if sh >= 0 else (n, 1, 10 ** (-sh))
