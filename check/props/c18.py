"""C18 — JSON.parse / JSON.stringify implement exactly the JSON grammar and value mapping.
tie: correspondence of the Lean model (grammar over UTF-16 code units, value mapping, QuoteJSONString, serialisation) with the engine:
(i) every generated text — rendered from random values with random white space / escape styles, and mutated into near-misses — gets the
same accept/reject verdict and, when accepted, the same value tree from `parse` in the model and JSON.parse in the engine;
(ii) JSON.stringify of the value equals the model's serialisation; (iii) the engine's parse(stringify(v)) is structurally v."""
import struct

import lib

SIGN = 1 << 63


def h4(units):
    return "".join("%04x" % u for u in units) or "-"


def units_of(text):
    out = []
    for ch in text:
        o = ord(ch)
        if o >= 0x10000:
            o -= 0x10000
            out += [0xD800 + (o >> 10), 0xDC00 + (o & 0x3FF)]
        else:
            out.append(o)
    return out


def bits_of(x):
    return struct.unpack(">Q", struct.pack(">d", x))[0]


# ------------------------------------------------------------------ values: ("n",) ("b",bool) ("d",token) ("s",units) ("a",[..]) ("o",[(k,v)..])
NUMS = ["0", "-0", "1", "-1", "7", "42", "-17", "1.5", "-0.25", "1e21", "1e-7", "123456789", "2.5e-3", "1E3", "0.1", "9007199254740993", "1e400", "-1e400", "5e-324", "12.0e+2"]
UNITS = [0x20, 0x41, 0x7A, 0x22, 0x5C, 0x2F, 0x08, 0x09, 0x0A, 0x0C, 0x0D, 0x00, 0x1F, 0x7F, 0xE9, 0x2028, 0x2029, 0xFEFF, 0xFFFF, 0xD800, 0xDBFF, 0xDC00, 0xDFFF, 0x30, 0x3A, 0x2C, 0x7B, 0x5B]
KEYS = [[0x61], [0x62], [0x63], [], [0x5F, 0x5F, 0x70, 0x72, 0x6F, 0x74, 0x6F, 0x5F, 0x5F], [0x31], [0x30], [0x31, 0x30], [0x2D, 0x31], [0x30, 0x31], [0x6C, 0x65, 0x6E, 0x67, 0x74, 0x68],
        [0x22], [0xD800], [0x74, 0x6F, 0x4A, 0x53, 0x4F, 0x4E], [0x63, 0x6F, 0x6E, 0x73, 0x74, 0x72, 0x75, 0x63, 0x74, 0x6F, 0x72]]


def gen_string(r):
    n = r() % 6
    s = []
    for _ in range(n):
        k = r() % 10
        if k < 6:
            s.append(UNITS[r() % len(UNITS)])
        elif k < 8:
            s += [0xD800 + r() % 0x400, 0xDC00 + r() % 0x400]      # a proper pair
        else:
            s.append(r() % 0x10000)
    return s


def gen_value(r, d):
    k = r() % 12
    if d <= 0 or k < 6:
        k2 = r() % 6
        if k2 == 0:
            return ("n",)
        if k2 == 1:
            return ("b", bool(r() % 2))
        if k2 < 4:
            return ("d", NUMS[r() % len(NUMS)])
        return ("s", gen_string(r))
    if k < 9:
        return ("a", [gen_value(r, d - 1) for _ in range(r() % 4)])
    return ("o", [(KEYS[r() % len(KEYS)] if r() % 3 else gen_string(r), gen_value(r, d - 1)) for _ in range(r() % 4)])


def is_index(units):
    """canonical array index: the engine orders these keys first, numerically"""
    if not units or any(not (0x30 <= u <= 0x39) for u in units):
        return None
    t = "".join(chr(u) for u in units)
    if (t[0] == "0" and len(t) > 1) or int(t) >= 2 ** 32 - 1:
        return None
    return int(t)


def normalise(v):
    """the value JSON.parse must produce: last value of a duplicate key at the first position, integer keys first;
    numbers become their bit patterns"""
    if v[0] == "d":
        x = float(v[1])
        return ("d", bits_of(x))
    if v[0] == "a":
        return ("a", [normalise(x) for x in v[1]])
    if v[0] == "o":
        order, vals = [], {}
        for k, x in v[1]:
            t = tuple(k)
            if t not in vals:
                order.append(t)
            vals[t] = normalise(x)
        idx = sorted((t for t in order if is_index(t) is not None), key=is_index)
        rest = [t for t in order if is_index(t) is None]
        return ("o", [(list(t), vals[t]) for t in idx + rest])
    if v[0] == "s":
        return ("s", list(v[1]))
    return v


def canon(v, numbers_as_bits):
    if v[0] == "n":
        return "n"
    if v[0] == "b":
        return "t" if v[1] else "f"
    if v[0] == "d":
        return "d%016x;" % v[1] if numbers_as_bits else "d%s;" % v[1]
    if v[0] == "s":
        return "s%s;" % "".join("%04x" % u for u in v[1])
    if v[0] == "a":
        return "[" + ",".join(canon(x, numbers_as_bits) for x in v[1]) + "]"
    return "{" + ",".join("k%s;%s" % ("".join("%04x" % u for u in k), canon(x, numbers_as_bits)) for k, x in v[1]) + "}"


def parse_canon(s):
    """canonical text (either producer) -> value with ('d', text-or-bits)"""
    pos = [0]

    def go():
        c = s[pos[0]]
        pos[0] += 1
        if c == "n":
            return ("n",)
        if c in "tf":
            return ("b", c == "t")
        if c in "ds":
            e = s.index(";", pos[0])
            body = s[pos[0]:e]
            pos[0] = e + 1
            if c == "d":
                return ("d", body)
            return ("s", [int(body[i:i + 4], 16) for i in range(0, len(body), 4)])
        if c == "[":
            xs = []
            while s[pos[0]] != "]":
                if s[pos[0]] == ",":
                    pos[0] += 1
                xs.append(go())
            pos[0] += 1
            return ("a", xs)
        if c == "{":
            kvs = []
            while s[pos[0]] != "}":
                if s[pos[0]] == ",":
                    pos[0] += 1
                pos[0] += 1
                e = s.index(";", pos[0])
                body = s[pos[0]:e]
                pos[0] = e + 1
                kvs.append(([int(body[i:i + 4], 16) for i in range(0, len(body), 4)], go()))
            pos[0] += 1
            return ("o", kvs)
        raise ValueError("canonical: %r at %d" % (c, pos[0] - 1))
    return go()


def to_bits_tree(v):
    """model tree with number tokens -> bits"""
    if v[0] == "d":
        return ("d", bits_of(float(v[1])))
    if v[0] == "a":
        return ("a", [to_bits_tree(x) for x in v[1]])
    if v[0] == "o":
        return ("o", [(k, to_bits_tree(x)) for k, x in v[1]])
    return v


def engine_tree(v):
    if v[0] == "d":
        return ("d", int(v[1], 16))
    if v[0] == "a":
        return ("a", [engine_tree(x) for x in v[1]])
    if v[0] == "o":
        return ("o", [(k, engine_tree(x)) for k, x in v[1]])
    return v


def js_order(v):
    if v[0] == "a":
        return ("a", [js_order(x) for x in v[1]])
    if v[0] == "o":
        kv = [(k, js_order(x)) for k, x in v[1]]
        idx = sorted((p for p in kv if is_index(p[0]) is not None), key=lambda p: is_index(p[0]))
        return ("o", idx + [p for p in kv if is_index(p[0]) is None])
    return v


WS = [[], [0x20], [0x0A], [0x09], [0x0D, 0x0A], [0x20, 0x20]]


def render(r, v, style):
    """JSON text (code units) of a value; style 0 = compact canonical, 1 = random white space and escape spellings"""
    def ws():
        return WS[r() % len(WS)] if style else []

    def string(u):
        out = [0x22]
        for i, c in enumerate(u):
            esc = {0x22: [0x5C, 0x22], 0x5C: [0x5C, 0x5C], 0x08: [0x5C, 0x62], 0x0C: [0x5C, 0x66], 0x0A: [0x5C, 0x6E], 0x0D: [0x5C, 0x72], 0x09: [0x5C, 0x74]}.get(c)
            if esc and not (style and r() % 3 == 0):
                out += esc
            elif c < 0x20 or esc or (style and r() % 4 == 0) or (0xD800 <= c <= 0xDFFF and style and r() % 2):
                hexs = "%04x" % c
                if style and r() % 2:
                    hexs = hexs.upper()
                out += [0x5C, 0x75] + [ord(x) for x in hexs]
            elif c == 0x2F and style and r() % 2:
                out += [0x5C, 0x2F]
            else:
                out.append(c)
        return out + [0x22]

    def go(x):
        if x[0] == "n":
            return units_of("null")
        if x[0] == "b":
            return units_of("true" if x[1] else "false")
        if x[0] == "d":
            return units_of(x[1])
        if x[0] == "s":
            return string(x[1])
        if x[0] == "a":
            out = [0x5B] + ws()
            for i, e in enumerate(x[1]):
                if i:
                    out += ws() + [0x2C] + ws()
                out += go(e)
            return out + ws() + [0x5D]
        out = [0x7B] + ws()
        for i, (k, e) in enumerate(x[1]):
            if i:
                out += ws() + [0x2C] + ws()
            out += string(k) + ws() + [0x3A] + ws() + go(e)
        return out + ws() + [0x7D]
    return ws() + go(v) + ws()


MUT_INSERT = [0x2C, 0x5D, 0x7D, 0x5B, 0x7B, 0x22, 0x27, 0x5C, 0x30, 0x2E, 0x2D, 0x2B, 0x65, 0x3A, 0x2F, 0x0B, 0x0C, 0xA0, 0xFEFF, 0x2028, 0x00, 0x1F, 0x75, 0x78, 0x4E, 0x49, 0x74]
FIXED_TEXTS = ["", " ", "[1,]", "{\"a\":1,}", "[,1]", "01", "-", "1.", ".5", "+1", "1e", "1e+", "0x10", "NaN", "Infinity", "-Infinity", "undefined", "'a'", "\"\\x41\"", "\"\\u12\"", "\"\\u12G4\"",
               "\"a\nb\"", "\"\t\"", "[1 2]", "{\"a\" 1}", "{a:1}", "{\"a\":1 \"b\":2}", "// c\n1", "/* c */1", "1 2", "[1]]", "{}}", "nul", "tru", "True", "\"abc", "\"\\", "\"\\u", "[", "{", "{\"a\"", "{\"a\":",
               "-0", "-0.0", "0e0", "0E-0", "1e999", "-1e999", "1e-999", "123456789012345678901234567890", "0.1e1", "\"\\/\"", "\"\\ud83d\\ude00\"", "\"\\ude00\\ud83d\"", "\"\\uD800\"", "\u00a01", "\ufeff1", "1\u2028",
               "\"\u2028\u2029\"", "{\"__proto__\":{\"x\":1}}", "{\"__proto__\":1,\"__proto__\":2}", "{\"2\":1,\"b\":2,\"1\":3,\"a\":4,\"01\":5,\"-1\":6,\"4294967294\":7,\"4294967295\":8}", "{\"a\":1,\"b\":2,\"a\":3}",
               "[[[[[[[[[[[[[[[[[[[[1]]]]]]]]]]]]]]]]]]]]", "{\"a\":{\"a\":{\"a\":{\"a\":{\"a\":[]}}}}}", "[\"\\b\\f\\n\\r\\t\\\"\\\\\"]", "\"\\v\"", "\"\\0\"", "\"\\a\"", "[1e5,1E5,1e+5,1e-5,1.0e05]", "[-]", "[--1]", "[1-]", "[.]", "[00]", "[0.]", "[1.e1]"]


def run(ck):
    ck.trusted_base += [
        "check/props/c18.py: value generator, renderer of texts, tree comparison (numbers by bit pattern via Python's correctly rounded float(), "
        "own-key order by the array-index rule)",
        "modelled, not verified: the engine validates with serde_json then evaluates the text with its JavaScript parser in JSON mode; none of that is translated — "
        "the Lean grammar is hand-written from ECMA-404 / ECMA-262 and compared on every text",
        "not covered: reviver / replacer / indent / toJSON / rawJSON paths, BigInt and cyclic TypeErrors",
    ]
    ck.prove("BoaVerif.C18.Theorems", driver="drv-c18")
    bins = ck.build_harness(["c18"])
    r = lib.rng(ck.seed)
    quick = ck.tier == "quick"
    texts = []          # (units, why)
    values = []
    for _ in range(500 if quick else 12000):
        v = gen_value(r, 1 + r() % 4)
        values.append(v)
        texts.append((render(r, v, 0), "valid-compact"))
        t = render(r, v, 1)
        texts.append((t, "valid-styled"))
        # near misses: delete / insert / replace one code unit, or cut the text
        for _m in range(3):
            if not t:
                break
            m = list(t)
            k = r() % 4
            p = r() % len(m)
            if k == 0:
                del m[p]
            elif k == 1:
                m.insert(p, MUT_INSERT[r() % len(MUT_INSERT)])
            elif k == 2:
                m[p] = MUT_INSERT[r() % len(MUT_INSERT)]
            else:
                m = m[:p]
            texts.append((m, "mutated"))
    # numbers with many digits: alone (a text may be a single number), with white space, and inside a structure
    for _ in range(200 if quick else 5000):
        nd = 15 + r() % 4
        digits = str(1 + r() % 9) + "".join(str(r() % 10) for _ in range(nd - 1))
        pos = r() % (nd + 1)
        t = (digits[:pos] or "0") + ("." + digits[pos:] if pos < nd else "")
        if r() % 3 == 0:
            t += "e%d" % (r() % 600 - 300)
        if r() % 4 == 0:
            t = "-" + t
        wrap = r() % 4
        texts.append((units_of(t if wrap == 0 else (" " + t + "\n" if wrap == 1 else ("[" + t + "]" if wrap == 2 else "{\"n\":" + t + "}"))), "long-number"))
    for t in FIXED_TEXTS:
        texts.append((units_of(t), "fixed"))
    texts.append(([0x22, 0xD800, 0x22], "raw-lone-surrogate"))
    texts.append(([0x22, 0x41, 0xDC00, 0x22], "raw-lone-surrogate"))
    for depth in (100, 128, 129, 200):
        texts.append((units_of("[" * depth + "]" * depth), "deep-%d" % depth))
        texts.append((units_of("{\"a\":" * depth + "1" + "}" * depth), "deep-%d" % depth))

    lean = ck.driver("drv-c18", ["parse " + h4(t) for t, _ in texts])
    rc, out, err = ck.run_bin(bins["c18"], input="\n".join("parse " + h4(t) for t, _ in texts) + "\n")
    eng = out.splitlines()
    if rc != 0 or len(eng) != len(texts):
        ck.fail_input({"site": "engine-crash", "input": "c18 parse batch", "expected": "%d answers" % len(texts), "actual": "rc=%s, %d answers: %s" % (rc, len(eng), err[-300:])})
        eng += ["missing"] * (len(texts) - len(eng))
    stats = {"accepted": 0, "rejected": 0}
    why_stats = {}

    def show(units):
        return "".join(chr(u) if 0x20 <= u < 0x7F else "\\u%04x" % u for u in units)[:400]

    for (t, why), a_l, a_e in zip(texts, lean, eng):
        why_stats[why] = why_stats.get(why, 0) + 1
        acc_l = a_l.startswith("ok ")
        acc_e = a_e.startswith("ok ")
        stats["accepted" if acc_l else "rejected"] += 1
        if a_e in ("panic", "missing"):
            ck.fail_input({"site": "engine-panic", "input": show(t), "expected": a_l[:80], "actual": a_e})
            continue
        if acc_l != acc_e:
            site = "parse-accepts-invalid" if acc_e else "parse-rejects-valid"
            raw_lone = False
            i = 0
            while i < len(t):
                if 0xD800 <= t[i] <= 0xDBFF and i + 1 < len(t) and 0xDC00 <= t[i + 1] <= 0xDFFF:
                    i += 2
                    continue
                if 0xD800 <= t[i] <= 0xDFFF:
                    raw_lone = True
                i += 1
            if site == "parse-rejects-valid" and raw_lone:
                site = "parse-rejects-raw-lone-surrogate"
            elif site == "parse-rejects-valid":
                depth = cur = 0
                instr = esc = False
                for u in t:
                    if instr:
                        if esc:
                            esc = False
                        elif u == 0x5C:
                            esc = True
                        elif u == 0x22:
                            instr = False
                    elif u == 0x22:
                        instr = True
                    elif u in (0x5B, 0x7B):
                        cur += 1
                        depth = max(depth, cur)
                    elif u in (0x5D, 0x7D):
                        cur -= 1
                if depth > 128:
                    site = "parse-rejects-nesting-beyond-128"
            ck.fail_input({"site": site, "input": show(t), "units": h4(t)[:800], "expected": a_l[:200], "actual": a_e[:200],
                           "oracle": "Lean model of the JSON grammar (C18.parse)"})
            continue
        if acc_l:
            tree_l = js_order(to_bits_tree(parse_canon(a_l.split()[1])))
            tree_e = engine_tree(parse_canon(a_e.split()[1]))
            if tree_l != tree_e:
                ck.fail_input({"site": "parse-value-differs", "input": show(t), "units": h4(t)[:800], "expected": canon(tree_l, True)[:300], "actual": canon(tree_e, True)[:300],
                               "oracle": "Lean model value mapping (duplicate keys, __proto__, escapes), numbers by correctly rounded value"})

    # ---- stringify and the round trip, from values
    reqs, expect = [], []
    lean_reqs = []
    for v in values:
        nv = normalise(v)
        # the model serialises the parsed value; the engine serialises the value it is handed (same tree, numbers as bits)
        lean_reqs.append("parse " + h4(render(r, v, 0)))
        reqs.append("stringify " + canon(nv, True))
        reqs.append("roundtrip " + canon(nv, True))
        expect.append(nv)
    lean2 = ck.driver("drv-c18", lean_reqs)
    rc, out, err = ck.run_bin(bins["c18"], input="\n".join(reqs) + "\n")
    eng2 = out.splitlines()
    if rc != 0 or len(eng2) != len(reqs):
        ck.fail_input({"site": "engine-crash", "input": "c18 stringify batch", "expected": "%d answers" % len(reqs), "actual": "rc=%s, %d answers: %s" % (rc, len(eng2), err[-300:])})
        eng2 += ["missing"] * (len(reqs) - len(eng2))
    n_str = 0
    for i, (v, nv) in enumerate(zip(values, expect)):
        a_l = lean2[i]
        s_e, rt_e = eng2[2 * i], eng2[2 * i + 1]
        if not a_l.startswith("ok "):
            ck.model_drift({"input": canon(v, False)[:300], "model": a_l, "implementation": "the renderer of this check produced a text the model rejects"})
            continue
        has_index_key = "index" in str(has_index(nv))
        tokens_plain = plain_numbers(v)
        # (ii) text equality needs the model's key order (no array-index keys) and number tokens that are already in JS form
        if not has_index_key and tokens_plain:
            n_str += 1
            want = a_l.split()[2]
            if s_e != "s " + want:
                ck.fail_input({"site": "stringify-text-differs", "input": canon(nv, True)[:400], "expected": want[:600], "actual": s_e[:600],
                               "oracle": "Lean model stringify (QuoteJSONString, separators)"})
        # (iii) structural round trip through the engine alone
        if not rt_e.startswith("ok "):
            ck.fail_input({"site": "roundtrip-fails", "input": canon(nv, True)[:400], "expected": "parse(stringify(v)) is v", "actual": rt_e[:300]})
        else:
            back = engine_tree(parse_canon(rt_e.split()[1]))
            if back != finite_tree(nv):
                ck.fail_input({"site": "roundtrip-differs", "input": canon(nv, True)[:400], "expected": canon(finite_tree(nv), True)[:300], "actual": canon(back, True)[:300]})
    ck.oblige("correspondence:JSON.parse verdict and value == C18 model on %d texts; JSON.stringify == model on %d values; engine round trip on %d values"
              % (len(texts), n_str, len(values)), "correspondence", True)
    ck.coverage.update({
        "evaluations": len(texts) + len(reqs),
        "distinct_nontrivial": len(set(tuple(t) for t, _ in texts)),
        "rule": "values: trees of depth <= 5 over null/bool/20 number tokens/strings of up to 5 units drawn from quotes, backslash, controls, DEL, U+2028/9, BOM, paired and lone surrogates, "
                "random units; keys incl. '', __proto__, array indices, duplicates. texts: compact and styled renderings (6 white-space fillers, alternative escape spellings), three single-unit "
                "mutations each, %d fixed near-misses, raw lone surrogates, nesting 100..200. distinct = distinct texts" % len(FIXED_TEXTS),
        "texts_by_origin": why_stats, "model_verdicts": stats, "stringify_text_comparisons": n_str,
        "samples": [show(texts[0][0]), show(texts[5][0])],
        "partial": ["reviver, replacer, indent, toJSON, rawJSON, BigInt/cycle errors are not covered", "numbers are compared by value (C13 covers their text)"],
    })


def has_index(v):
    if v[0] == "a":
        return [has_index(x) for x in v[1]]
    if v[0] == "o":
        return ["index" if is_index(k) is not None else "" for k, _ in v[1]] + [has_index(x) for _, x in v[1]]
    return ""


JS_FORM = {"0", "1", "-1", "7", "42", "-17", "1.5", "-0.25", "1e+21", "123456789", "0.1", "1e-7"}


def plain_numbers(v):
    """every number token is already what Number::toString prints (so texts can be compared literally)"""
    if v[0] == "d":
        return v[1] in JS_FORM
    if v[0] == "a":
        return all(plain_numbers(x) for x in v[1])
    if v[0] == "o":
        return all(plain_numbers(x) for _, x in v[1])
    return True


def finite_tree(v):
    """JSON.stringify writes non-finite numbers as null, and -0 as 0"""
    if v[0] == "d":
        b = v[1]
        if b & ~SIGN >= 0x7FF0000000000000:
            return ("n",)
        if b == SIGN:
            return ("d", 0)
        return v
    if v[0] == "a":
        return ("a", [finite_tree(x) for x in v[1]])
    if v[0] == "o":
        return ("o", [(k, finite_tree(x)) for k, x in v[1]])
    return v
