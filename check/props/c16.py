"""C16 — promise jobs run in spec FIFO order; results do not depend on scheduling.
tie: correspondence of the Lean model of the promise machinery (ECMA-262 27.2 / 27.7 written as a state machine with a FIFO job list)
with the engine: generated promise programs (resolvers, then chains, thenable resolutions, Promise.resolve/reject, async functions
with awaits, callbacks that create more of the same) are rendered to JavaScript; the model's predicted trace must equal the engine's,
(a) evaluated synchronously and drained once, (b) drained by a custom executor one / two / k jobs per run_jobs call,
(c) evaluated with evaluate_async_with_budget for several budgets."""
import json

import lib

PRELUDE = ("var P = [], res = [], rej = [];\n"
           "function S(x){ return typeof x === 'number' ? String(x) : (x instanceof Error ? 'E' : (x instanceof Promise ? 'P' : typeof x)); }\n")


class Gen:
    def __init__(self, r):
        self.r = r
        self.bodies = []        # list of dicts {tag, ops, res}
        self.nvars = 0
        self.resolvers = []     # vars created by newP
        self.main_vars = []     # vars every body may use
        self.tag = 0

    def fresh_tag(self):
        self.tag += 1
        return self.tag

    def fresh_var(self):
        self.nvars += 1
        return self.nvars - 1

    def value(self, avail, in_cb):
        r = self.r
        k = r() % 10
        if k < 4 or not avail:
            return "#%d" % (r() % 9)
        if k < 8:
            return "$%d" % avail[r() % len(avail)]
        return "@" if in_cb else "#%d" % (r() % 9)

    def ops(self, depth, avail, in_cb, n_ops):
        r = self.r
        out = []
        avail = list(avail)
        local_resolvers = [v for v in self.resolvers if v in avail]
        for _ in range(n_ops):
            k = r() % 100
            if k < 10:
                out.append(("p", self.fresh_tag()))
            elif k < 25:
                v = self.fresh_var()
                out.append(("n", v))
                avail.append(v)
                self.resolvers.append(v)
                local_resolvers.append(v)
            elif k < 48 and local_resolvers:
                i = local_resolvers[r() % len(local_resolvers)]
                pv = [v for v in avail if v != i]
                val = "$%d" % pv[r() % len(pv)] if pv and r() % 2 else (self.value(avail, in_cb) if r() % 4 else "#%d" % (r() % 9))
                out.append(("r" if r() % 4 else "j", i, val))
                if r() % 3 == 0:
                    # settle the same promise again (the resolving functions are latched after the first call, even
                    # when that call only locked the promise onto another promise)
                    out.append(("r" if r() % 2 else "j", i, "#%d" % (r() % 9)))
            elif k < 74 and avail:
                i = avail[r() % len(avail)]
                f = self.handler(depth - 1, avail) if r() % 5 else None
                g = self.handler(depth - 1, avail) if r() % 3 == 0 else None
                j = self.fresh_var()
                out.append(("t", i, f, g, j))
                avail.append(j)
            elif k < 80:
                j = self.fresh_var()
                out.append(("q", j, self.value(avail, in_cb)))
                avail.append(j)
            elif k < 86:
                j = self.fresh_var()
                out.append(("x", j, "#%d" % (r() % 9)))
                avail.append(j)
            elif k < 96 and depth > 0:
                b = self.async_fn(depth - 1, avail)
                j = self.fresh_var()
                out.append(("a", b, j))
                avail.append(j)
            else:
                out.append(("p", self.fresh_tag()))
        return out, avail

    def handler(self, depth, avail):
        idx = len(self.bodies)
        self.bodies.append(None)
        ops, av = self.ops(depth, avail, True, self.r() % 3 if depth > 0 else 0)
        k = self.r() % 10
        res = ("ret", self.value(av, True)) if k < 7 else ("thr", "#%d" % (self.r() % 9) if self.r() % 2 else "@")
        self.bodies[idx] = {"tag": self.fresh_tag(), "ops": ops, "res": res}
        return idx

    def async_fn(self, depth, avail):
        """a chain of segments; returns the index of the first"""
        nseg = 1 + self.r() % 3
        idxs = []
        for _ in range(nseg):
            idxs.append(len(self.bodies))
            self.bodies.append(None)
        av = list(avail)
        for s, idx in enumerate(idxs):
            ops, av = self.ops(depth, av, s > 0, self.r() % 3 if depth > 0 else self.r() % 2)
            if s + 1 < nseg:
                res = ("aw", self.value(av, s > 0), idxs[s + 1])
            else:
                res = ("ret", self.value(av, s > 0)) if self.r() % 4 else ("thr", "#%d" % (self.r() % 9))
            self.bodies[idx] = {"tag": self.fresh_tag(), "ops": ops, "res": res}
        return idxs[0]

    def wide_program(self, n):
        """n independent two-step chains queued in one turn (more jobs pending at once than any batch size)"""
        self.bodies.append(None)
        ops = []
        for k in range(n):
            v = self.fresh_var()
            ops.append(("q", v, "#%d" % (k % 9)))
            h1 = len(self.bodies)
            self.bodies.append({"tag": self.fresh_tag(), "ops": [], "res": ("ret", "@")})
            h2 = len(self.bodies)
            self.bodies.append({"tag": self.fresh_tag(), "ops": [], "res": ("ret", "#0")})
            w = self.fresh_var()
            ops.append(("t", v, h1, None, w))
            ops.append(("t", w, h2, None, self.fresh_var()))
        self.bodies[0] = {"tag": 0, "ops": ops, "res": ("ret", "#0")}
        return self.bodies

    def program(self):
        if self.r() % 25 == 0:
            return self.wide_program(65 + self.r() % 70)
        self.bodies.append(None)
        ops, av = self.ops(2, [], False, 4 + self.r() % 8)
        self.bodies[0] = {"tag": 0, "ops": ops, "res": ("ret", "#0")}
        return self.bodies


def model_tokens(bodies):
    t = []
    for b in bodies:
        t += ["B", str(b["tag"])]
        for op in b["ops"]:
            if op[0] == "t":
                t += ["t", str(op[1]), "-" if op[2] is None else str(op[2]), "-" if op[3] is None else str(op[3]), str(op[4])]
            else:
                t += [str(x) for x in op]
        t += ["R"] + [str(x) for x in b["res"]]
    return t


def js_value(v):
    if v == "@":
        return "x"
    if v[0] == "#":
        return v[1:]
    return "P[%s]" % v[1:]


def js_ops(bodies, ops):
    out = []
    for op in ops:
        k = op[0]
        if k == "p":
            out.append("print('%d:0');" % op[1])
        elif k == "n":
            out.append("P[%d] = new Promise(function(a, b){ res[%d] = a; rej[%d] = b; });" % (op[1], op[1], op[1]))
        elif k == "r":
            out.append("res[%d](%s);" % (op[1], js_value(op[2])))
        elif k == "j":
            out.append("rej[%d](%s);" % (op[1], js_value(op[2])))
        elif k == "t":
            f = js_handler(bodies, op[2]) if op[2] is not None else "undefined"
            g = js_handler(bodies, op[3]) if op[3] is not None else "undefined"
            out.append("P[%d] = P[%d].then(%s, %s);" % (op[4], op[1], f, g))
        elif k == "q":
            out.append("P[%d] = Promise.resolve(%s);" % (op[1], js_value(op[2])))
        elif k == "x":
            out.append("P[%d] = Promise.reject(%s);" % (op[1], js_value(op[2])))
        elif k == "a":
            out.append("P[%d] = %s();" % (op[2], js_async(bodies, op[1])))
    return " ".join(out)


def js_handler(bodies, idx):
    b = bodies[idx]
    end = "return %s;" % js_value(b["res"][1]) if b["res"][0] == "ret" else "throw %s;" % js_value(b["res"][1])
    return "function(x){ print('%d:' + S(x)); %s %s }" % (b["tag"], js_ops(bodies, b["ops"]), end)


def js_async(bodies, idx):
    parts = ["var x = 0;"]
    while True:
        b = bodies[idx]
        parts.append("print('%d:' + S(x)); %s" % (b["tag"], js_ops(bodies, b["ops"])))
        if b["res"][0] == "aw":
            parts.append("x = await %s;" % js_value(b["res"][1]))
            idx = b["res"][2]
            continue
        parts.append("return %s;" % js_value(b["res"][1]) if b["res"][0] == "ret" else "throw %s;" % js_value(b["res"][1]))
        break
    return "(async function(){ %s })" % " ".join(parts)


# async-generator request queues, shapes the generator reaches rarely: return() on a generator that has not started / has completed,
# followed at once by next(); expected order is the FIFO oracle of agen_program
AGEN_FIXED = [
    "async function* G(){ yield 1; } var it = G(); function req(i, p){ print('C' + i); p.then(function(v){ print('S' + i, v.done); }, function(){ print('S' + i, 'rej'); }); }"
    " req(0, it['return'](Promise.resolve(1))); req(1, it.next()); print('main');",
    "async function* G(){} var it = G(); var slow = new Promise(function(r){ Promise.resolve().then(function(){}).then(function(){ r('x'); }); });"
    " function req(i, p){ print('C' + i); p.then(function(v){ print('S' + i, v.done); }, function(){ print('S' + i, 'rej'); }); }"
    " req(0, it.next()); Promise.resolve().then(function(){ req(1, it['return'](slow)); req(2, it.next()); req(3, it.next()); });"
    " Promise.resolve().then(function(){ print('t1'); }).then(function(){ print('t2'); }).then(function(){ print('t3'); }).then(function(){ print('t4'); }); print('main');",
    "async function* G(){ yield 1; } var it = G(); function req(i, p){ print('C' + i); p.then(function(v){ print('S' + i, v.done); }, function(){ print('S' + i, 'rej'); }); return p; }"
    " req(0, it.next()).then(function(){ req(1, it.next()); req(2, it['return'](Promise.resolve('y'))); req(3, it.next()); }); print('main');",
]

CORPUS_JS = [
    # ordering facts every engine agrees on (kept as engine-only self-consistency cases across scheduling modes)
    "var p = Promise.resolve(); p.then(function(){ print('a1'); }).then(function(){ print('a2'); }); p.then(function(){ print('b1'); }).then(function(){ print('b2'); }); print('main');",
    "async function f(){ print('f1'); await null; print('f2'); await new Promise(function(r){ r(); }); print('f3'); } f(); Promise.resolve().then(function(){ print('t1'); }).then(function(){ print('t2'); }).then(function(){ print('t3'); }); print('main');",
    "async function* g(){ print('g1'); yield 1; print('g2'); yield 2; } var it = g(); it.next().then(function(v){ print('n1', v.value); }); it.next().then(function(v){ print('n2', v.value); }); it.next().then(function(v){ print('n3', v.done); }); print('main');",
    "var thenable = { then: function(r){ print('then called'); r(5); } }; Promise.resolve(thenable).then(function(v){ print('got', v); }); Promise.resolve().then(function(){ print('tick'); }); print('main');",
    "Promise.all([1, Promise.resolve(2), new Promise(function(r){ r(3); })]).then(function(v){ print('all', v.join()); }); Promise.race([new Promise(function(){}), Promise.reject(4)]).catch(function(e){ print('race', e); }); print('main');",
    "async function a(){ try { await Promise.reject(1); } catch (e) { print('caught', e); } finally { print('fin'); } return 2; } a().then(function(v){ print('a', v); }); (async function(){ for await (var v of [Promise.resolve(1), 2]) print('fa', v); })(); print('main');",
]


def agen_program(r):
    """an async generator and a random sequence of next / return / throw requests issued synchronously, from reaction
    callbacks of earlier requests and from an independent chain. ORACLE (ECMA-262 27.6.3: AsyncGeneratorEnqueue appends to
    [[AsyncGeneratorQueue]], AsyncGeneratorCompleteStep always removes its FIRST element): the result promises of one generator
    settle in the order the requests were made, so the 'S<i>' lines appear in the order of the 'C<i>' lines"""
    stmts = []
    ny = r() % 4
    for y in range(ny):
        k = r() % 6
        if k == 0:
            stmts.append("await null;")
        elif k == 1:
            stmts.append("await slow;")
        if r() % 5 == 0:
            stmts.append("try { yield %d; } finally { %s }" % (y, ["await null;", "yield 'f%d';" % y, "print('fin%d');" % y][r() % 3]))
        else:
            stmts.append("yield %s;" % ["%d" % y, "Promise.resolve(%d)" % y, "slow"][r() % 3])
    tail = r() % 4
    if tail == 0:
        stmts.append("throw 'boom';")
    elif tail == 1:
        stmts.append("return slow;")
    elif tail == 2:
        stmts.append("return 9;")
    body = "async function* G(){ print('body'); %s }" % " ".join(stmts)
    pre = ("var slow = new Promise(function(res){ Promise.resolve().then(function(){}).then(function(){}).then(function(){ res('x'); }); });"
           "var it = G();"
           "function req(i, kind, val){ print('C' + i); var p = kind === 0 ? it.next(val) : kind === 1 ? it['return'](val) : it['throw'](val);"
           " p.then(function(v){ print('S' + i, v.done); }, function(e){ print('S' + i, 'rej'); }); return p; }")
    nreq = 2 + r() % 5
    calls = []
    for i in range(nreq):
        kind = [0, 0, 1, 1, 2][r() % 5]
        val = ["1", "slow", "Promise.resolve(2)", "undefined"][r() % 4]
        calls.append("req(%d, %d, %s)" % (i, kind, val))
    main = []
    i = 0
    first = 1 + r() % min(3, nreq)
    main.append(";".join(calls[:first]) + ";")
    rest = calls[first:]
    if rest:
        where = r() % 3
        if where == 0:      # an independent chain, one request per tick
            main.append("Promise.resolve()" + "".join(".then(function(){ %s; })" % c for c in rest) + ";")
        elif where == 1:    # from the reaction of the first request
            main.append("var p0 = it.next(); p0.then(function(){ %s; });" % "; ".join(rest))
        else:               # two ticks later, all at once
            main.append("Promise.resolve().then(function(){}).then(function(){ %s; });" % "; ".join(rest))
    main.append("Promise.resolve().then(function(){ print('t1'); }).then(function(){ print('t2'); }).then(function(){ print('t3'); }).then(function(){ print('t4'); });")
    return body + pre + " ".join(main) + " print('main');"


def fifo_violation(out):
    """first request whose result promise settled out of request order (None if FIFO)"""
    calls = [l[1:] for l in out if l.startswith("C")]
    settled = [l.split()[0][1:] for l in out if l.startswith("S")]
    want = [c for c in calls if c in settled]
    if settled != want:
        return "requests made in order %s, result promises settled in order %s" % (",".join(calls), ",".join(settled))
    if len(settled) != len(calls):
        return "requests %s made, only %s settled" % (",".join(calls), ",".join(settled))
    return None


def run(ck):
    ck.trusted_base += [
        "check/props/c16.py: program generator and its JavaScript rendering",
        "harness c16: a FIFO JobExecutor that runs at most n promise jobs per run_jobs call, and a manual poll loop around evaluate_async_with_budget",
        "modelled, not verified: Promise.prototype.then / resolve functions / await as specified in ECMA-262 27.2 and 27.7 (written by hand in C16/Model.lean); "
        "async generators, Promise combinators, thenables with user `then` and timers are only covered by the engine-only scheduling-independence cases",
    ]
    ck.prove("BoaVerif.C16.Theorems", driver="drv-c16")
    bins = ck.build_harness(["c16"])
    r = lib.rng(ck.seed)
    quick = ck.tier == "quick"
    progs = []
    for _ in range(250 if quick else 6000):
        g = Gen(r)
        bodies = g.program()
        js = PRELUDE + js_ops(bodies, bodies[0]["ops"])
        progs.append((bodies, js))
    modes = [("sync", 1), ("chunk", 1), ("chunk", 2), ("chunk", 5), ("budget", 1), ("budget", 7), ("budget", 100)]
    src = []
    for i, (bodies, js) in enumerate(progs):
        for m, n in modes:
            src.append("//// g%d.%s%d mode=%s n=%d" % (i, m, n, m, n))
            src.append(js)
    for i, js in enumerate(CORPUS_JS):
        for m, n in modes:
            src.append("//// k%d.%s%d mode=%s n=%d" % (i, m, n, m, n))
            src.append(js)
    agens = [agen_program(r) for _ in range(150 if quick else 3000)] + AGEN_FIXED
    for i, js in enumerate(agens):
        for m, n in modes:
            src.append("//// a%d.%s%d mode=%s n=%d" % (i, m, n, m, n))
            src.append(js)
    rc, out, err = ck.run_bin(bins["c16"], input="\n".join(src) + "\n")
    res = {}
    for l in out.splitlines():
        if l.startswith("{"):
            j = json.loads(l)
            res[j["id"]] = j
    expected_n = (len(progs) + len(CORPUS_JS) + len(agens)) * len(modes)
    if rc != 0 or len(res) != expected_n:
        ck.fail_input({"site": "engine-crash", "input": "c16 batch", "expected": "%d traces" % expected_n, "actual": "rc=%s got %d: %s" % (rc, len(res), err[-300:])})
    chunks = ["1,1,1", "2,3", "1", "4,4,4,4"]
    answers = ck.driver("drv-c16", ["run %s %s" % (chunks[i % len(chunks)], " ".join(model_tokens(b))) for i, (b, _) in enumerate(progs)])
    drift = 0
    jobs_total = 0
    for i, ((bodies, js), a) in enumerate(zip(progs, answers)):
        t = a.split()
        want = t[2:]
        if t[0] != "quiet":
            ck.model_drift({"input": js[:600], "model": a[:200], "implementation": "the model did not reach an empty queue"})
            drift += 1
            continue
        jobs_total += len(want)
        base = res.get("g%d.sync1" % i)
        if not base:
            continue
        if base["completion"].startswith("panic") or not base["completion"].startswith("ok"):
            ck.fail_input({"site": "engine-error", "input": js, "expected": "normal completion", "actual": base["completion"]})
            continue
        if base["out"] != want:
            k = next((x for x in range(min(len(want), len(base["out"]))) if want[x] != base["out"][x]), min(len(want), len(base["out"])))
            ck.fail_input({"site": "job-order-differs-from-spec", "input": js, "expected": want, "actual": base["out"], "first_difference": k,
                           "oracle": "Lean model of ECMA-262 promise jobs (C16.Model), FIFO queue"})
            continue
        for m, n in modes[1:]:
            o = res.get("g%d.%s%d" % (i, m, n))
            if o and (o["out"] != base["out"] or o["completion"] != base["completion"]):
                ck.fail_input({"site": "trace-depends-on-scheduling", "input": js, "mode": "%s n=%d" % (m, n), "expected": base["out"], "actual": o["out"],
                               "oracle": "the same script drained once, synchronously"})
    for i, js in enumerate(CORPUS_JS):
        base = res.get("k%d.sync1" % i)
        if not base:
            continue
        for m, n in modes[1:]:
            o = res.get("k%d.%s%d" % (i, m, n))
            if o and (o["out"] != base["out"] or o["completion"] != base["completion"]):
                ck.fail_input({"site": "trace-depends-on-scheduling", "input": js, "mode": "%s n=%d" % (m, n), "expected": base["out"], "actual": o["out"],
                               "oracle": "the same script drained once, synchronously"})
    agen_bad = 0
    for i, js in enumerate(agens):
        base = res.get("a%d.sync1" % i)
        if not base:
            continue
        if not base["completion"].startswith("ok"):
            ck.fail_input({"site": "engine-error", "input": js, "expected": "normal completion", "actual": base["completion"]})
            agen_bad += 1
            continue
        v = fifo_violation(base["out"])
        if v:
            agen_bad += 1
            ck.fail_input({"site": "async-generator-queue-not-fifo", "input": js, "expected": "the result promises of one async generator settle in request order", "actual": v,
                           "trace": base["out"], "oracle": "ECMA-262 27.6.3.9 AsyncGeneratorEnqueue / 27.6.3.4 AsyncGeneratorCompleteStep: the queue is FIFO"})
            continue
        for m, n in modes[1:]:
            o = res.get("a%d.%s%d" % (i, m, n))
            if o and (o["out"] != base["out"] or o["completion"] != base["completion"]):
                agen_bad += 1
                ck.fail_input({"site": "trace-depends-on-scheduling", "input": js, "mode": "%s n=%d" % (m, n), "expected": base["out"], "actual": o["out"],
                               "oracle": "the same script drained once, synchronously"})
                break
    ck.oblige("oracle:async-generator requests complete in FIFO order and independently of scheduling on %d generated request sequences" % len(agens),
              "differential", agen_bad == 0, "%d programs" % agen_bad if agen_bad else None)
    ck.oblige("correspondence:engine trace == C16 model trace on %d generated promise programs (%d trace events), identical across %d scheduling modes"
              % (len(progs), jobs_total, len(modes)), "correspondence", drift == 0, "%d programs where the model did not finish" % drift if drift else None)
    ck.coverage.update({
        "evaluations": len(res),
        "distinct_nontrivial": len(set(js for _, js in progs)),
        "rule": "a program = 4-11 main operations over promise variables (new Promise with kept resolvers, resolve/reject with numbers, promises or the callback argument, "
                "then with optional fulfil/reject callbacks that return or throw numbers/promises/their argument and run further operations, Promise.resolve/reject, async functions "
                "of 1-3 await-separated segments), nested to depth 2; every program runs in 7 scheduling modes. distinct = distinct program texts",
        "modes": ["%s n=%d" % m for m in modes],
        "trace_events": jobs_total,
        "samples": [progs[0][1][:700]],
        "async_generator_request_sequences": len(agens),
        "partial": ["async generators are not in the Lean model: their request queue is checked against the FIFO oracle of ECMA-262 27.6.3 on generated request sequences; "
                    "Promise combinators and user thenables: scheduling-independence only (fixed programs)"],
    })
