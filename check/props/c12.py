"""C12 — value tagging is lossless, unambiguous and configuration-independent.
tie: translator (translate/bits.py regenerates Gen/Bits.lean from nan_boxed.rs, theorems re-checked)
   + correspondence (real JsValue vs the generated model on the same requests)."""
import os
import subprocess
import sys

import lib

CANON = 0x7FF8000000000000


def is_nan(b):
    return (b >> 52) & 0x7FF == 0x7FF and b & ((1 << 52) - 1) != 0


def as_i32_of(b):
    """int32 i with the same double bits, else None (python oracle)"""
    import struct
    x = struct.unpack(">d", struct.pack(">Q", b))[0]
    if x != x or x in (float("inf"), float("-inf")):
        return None
    if x == int(x) and -2 ** 31 <= x <= 2 ** 31 - 1 and struct.unpack(">Q", struct.pack(">d", float(int(x))))[0] == b:
        return int(x) & 0xFFFFFFFF
    return None


def spec(req):
    """independent statement of what the property demands for a request (python oracle)"""
    import struct
    t = req.split()
    if t[0] == "f64":
        b = int(t[1], 16)
        c = CANON if is_nan(b) else b
        x = struct.unpack(">d", struct.pack(">Q", c))[0]
        a = as_i32_of(c)
        return "float %016x preds=float type=float tb=%d asi32=%s" % (c, 1 if (x == x and x != 0) else 0, "-" if a is None else "%x" % a)
    if t[0] == "js":
        b = int(t[1], 16)
        return "number %016x" % (CANON if is_nan(b) else b)
    if t[0] == "i32":
        return "int32 %x preds=int32 type=float tb=%d asi32=%x" % (int(t[1], 16), 1 if int(t[1], 16) else 0, int(t[1], 16))
    if t[0] == "bool":
        return "boolean %s preds=boolean type=boolean tb=%s asi32=-" % (t[1], t[1])
    if t[0] in ("null", "undefined"):
        return "%s preds=%s type=%s tb=0 asi32=-" % (t[0], t[0], t[0])
    if t[0] == "heap":
        code = {"object": 5, "string": 6, "symbol": 7, "bigint": 8}[t[1]]
        return "%s preds=%s type=%s tb=1 asi32=- clone=%d drop=%d" % (t[1], t[1], t[1], code, code)
    raise ValueError(req)


def requests(ck):
    r = lib.rng(ck.seed)
    quick = ck.tier == "quick"
    reqs = []
    exps = [0, 1, 2, 0x3FE, 0x3FF, 0x400, 0x433, 0x434, 0x7FD, 0x7FE, 0x7FF]
    if quick:
        exps += [r() % 2048 for _ in range(24)]
    else:
        exps = list(range(2048))
    lows = [0, 1, 2, 0xFFFFFFFF, 0x100000000, 0xFFFFFFFFFFFF, 0x800000000000, 0x7FFFFFFFFFFF]
    for e in exps:
        for nib in range(16):
            for lo in lows:
                for s in (0, 1):
                    reqs.append("f64 %016x" % ((s << 63) | (e << 52) | (nib << 48) | lo))
    for _ in range(4000 if quick else 300000):
        reqs.append("f64 %016x" % r())
    # NaN space, every tag nibble, random payloads (the words that would alias tagged values)
    for _ in range(2000 if quick else 100000):
        reqs.append("f64 %016x" % ((r() & (1 << 63)) | (0x7FF << 52) | (r() & ((1 << 52) - 1))))
    for v in [0, 1, 2, 0x7FFFFFFF, 0x80000000, 0x80000001, 0xFFFFFFFF, 0xFFFFFFFE, 0x7FFFFFFE, 0xFFFF, 0x10000]:
        reqs.append("i32 %x" % v)
    for _ in range(3000 if quick else 1000000):
        reqs.append("i32 %x" % (r() & 0xFFFFFFFF))
    for k in range(32):
        reqs.append("i32 %x" % (1 << k))
        reqs.append("i32 %x" % ((1 << k) - 1))
        reqs.append("i32 %x" % ((-(1 << k)) & 0xFFFFFFFF))
    import struct
    for x in [0.0, -0.0, 1.0, -1.0, 2147483647.0, 2147483648.0, -2147483648.0, -2147483649.0, 0.5, 1e10, 4294967295.0, 123456.0, -7.0]:
        reqs.append("f64 %016x" % struct.unpack(">Q", struct.pack(">d", x))[0])
    for _ in range(300):
        reqs.append("f64 %016x" % struct.unpack(">Q", struct.pack(">d", float((r() % (1 << 33)) - (1 << 32))))[0])
    reqs += ["bool 0", "bool 1", "null", "undefined"]
    for k in ("object", "string", "symbol", "bigint"):
        for _ in range(3):
            reqs.append("heap %s %x" % (k, (r() & 0x7FFFFFFFFFF8) | 8))
    # scripts manufacturing bit patterns through DataView / Float64Array
    for nib in range(16):
        for s in (0, 1):
            for lo in (0, 1, 0x123456789AB, 0xFFFFFFFFFFFF):
                reqs.append("js %016x" % ((s << 63) | (0x7FF << 52) | (nib << 48) | lo))
    for _ in range(100 if quick else 5000):
        reqs.append("js %016x" % r())
    return reqs


def run(ck):
    ck.allowed_axiom_patterns = (r"_native\.bv_decide\.ax_", r"^Lean\.ofReduceBool$", r"^Lean\.trustCompiler$")
    ck.trusted_base += [
        "translate/bits.py (text-level translator of `mod bits` and the NanBoxedValue tag-dispatch tables; fail-closed)",
        "bv_decide: each use adds an axiom <theorem>._native.bv_decide.ax_* (compiled LRAT checker trusted); listed under coverage.axioms",
        "modelled, not verified: pointer provenance / `unsafe` reconstruction of JsObject/JsString/JsSymbol/JsBigInt from the tagged address; the enum representation legacy.rs (compared by the thorough tier's second build)",
    ]
    # 1. translator
    rc, out, err = lib.sh([sys.executable, os.path.join(lib.ROOT, "translate", "bits.py")])
    trans_ok = rc == 0
    ck.oblige("translate:nan_boxed.rs->Gen/Bits.lean", "translator", trans_ok, None if trans_ok else (out + err)[-800:])
    # 2. theorems against the regenerated model
    if trans_ok:
        ck.prove("BoaVerif.C12.Theorems", driver="drv-c12")
    # 3. correspondence
    bins = ck.build_harness(["c12"])
    reqs = requests(ck)
    rc, iout, ierr = ck.run_bin(bins["c12"], input="\n".join(reqs) + "\n")
    impl = iout.split("\n")[:-1]
    if rc != 0 or len(impl) != len(reqs):
        # the implementation died: find the request it died on
        idx = len(impl)
        ck.fail_input({"site": "c12-harness", "input": reqs[idx] if idx < len(reqs) else "?", "expected": "an answer",
                       "actual": "process ended rc=%s: %s" % (rc, ierr[-300:])})
        reqs = reqs[:idx]
    model = None
    if trans_ok:
        try:
            model = ck.driver("drv-c12", reqs)
        except lib.Infra as e:
            ck.oblige("driver drv-c12", "correspondence", False, str(e)[-500:])
    bad_impl, bad_model = 0, 0
    kinds = {}
    for i, q in enumerate(reqs):
        want = spec(q)
        kinds[q.split()[0]] = kinds.get(q.split()[0], 0) + 1
        if impl[i] != want:
            bad_impl += 1
            if bad_impl <= 20:
                ck.fail_input({"site": "JsValue:" + q.split()[0], "input": q, "expected": want, "actual": impl[i],
                               "oracle": "C12 property statement (python spec()) — model says: %s" % (model[i] if model else "n/a")})
        elif model is not None and model[i] != impl[i]:
            bad_model += 1
            if bad_model <= 20:
                ck.model_drift({"input": q, "model": model[i], "implementation": impl[i]})
    ck.oblige("correspondence:JsValue==Gen.Bits model on %d requests" % len(reqs), "correspondence",
              bad_model == 0 and model is not None, "%d disagreements" % bad_model if bad_model else None)
    # thorough: second engine build with the enum representation, same requests, same answers
    enum_cmp = None
    if ck.tier == "thorough":
        env = {"CARGO_TARGET_DIR": os.path.join(lib.ROOT, ".target-enum")}
        with lib.Lock("cargo-enum"):
            rc2, o2, e2 = lib.sh(["cargo", "build", "--offline", "--bin", "c12", "--features", "boa_engine/jsvalue-enum"],
                                 cwd=lib.HARNESS, env=env, timeout=3600)
        if rc2 != 0:
            raise lib.Infra("enum build failed: " + e2[-800:])
        rc3, eout, eerr = ck.run_bin(os.path.join(lib.ROOT, ".target-enum", "debug", "c12"), input="\n".join(reqs) + "\n")
        en = eout.split("\n")[:-1]
        diffs = 0
        for i, q in enumerate(reqs):
            a = en[i] if i < len(en) else "<no answer>"
            # the enum representation keeps NaN payloads of Rust-level f64s; scripts cannot observe them
            if q.startswith("f64 ") and is_nan(int(q.split()[1], 16)):
                a = a.split(" ")[0] + " " + ("%016x" % CANON) + " " + " ".join(a.split(" ")[2:]) if a.startswith("float ") and is_nan(int(a.split()[1], 16)) else a
            if a != impl[i]:
                diffs += 1
                if diffs <= 5:
                    ck.fail_input({"site": "jsvalue-enum-vs-nanboxed", "input": q, "expected": "same answer under both representations",
                                   "actual": {"nan_boxed": impl[i], "enum": a}})
        enum_cmp = {"requests": len(reqs), "differences": diffs}
        ck.oblige("configuration differential nan-boxed vs jsvalue-enum", "correspondence", diffs == 0)
    ck.coverage.update({
        "evaluations": len(reqs),
        "distinct_nontrivial": len(set(reqs)),
        "rule": "requests = structured f64 bit patterns (exponent x tag nibble x boundary mantissas x sign), seeded random words, "
                "NaN-space words with every tag nibble, int32 boundaries and random, heap kinds with a refcount canary, scripts that "
                "manufacture bit patterns through DataView/Float64Array; distinct = distinct request lines",
        "request_kinds": kinds,
        "samples": [{"request": reqs[i], "implementation": impl[i], "model": model[i] if model else None} for i in (0, 7, len(reqs) // 2, len(reqs) - 1)],
        "enum_build": enum_cmp,
        "partial": ["raw 64-bit words cannot be injected into a real JsValue through the public API: the dispatch tables on arbitrary "
                    "words are covered by the theorems on the regenerated model only"],
    })
