"""Parser for the code-block disassembly produced by the `dump` harness binary (boa_verif hook dump_code_blocks):
turns every block into one request line for the Lean verifier (lean/Drivers/C03.lean)."""
import re

INSTR = re.compile(r"^\s+([0-9a-f]{6})\s+(?:[><]?\s*\d+: [0-9a-f]{6})?\s*([A-Z][A-Za-z0-9]*)\s*(.*)$")
HANDLER = re.compile(r"^\s+\d+: Range: \[([0-9a-f]+), ([0-9a-f]+)\): Handler: ([0-9a-f]+), Environment: (\d+)")


# operand names as CodeBlock's Display prints them -> field names of the opcode table (vm/opcode/mod.rs)
ALIAS = {"ic": "ic_index", "pattern": "pattern_index", "flags": "flags_index", "names": "name_indices", "jump_table": "addresses"}


def parse_operands(text, op=""):
    """returns (regs, idx list, addrs, names)"""
    regs, idx, addrs, names = [], [], [], []
    text = text.strip()
    if not text:
        return regs, idx, addrs, names
    # split on top-level commas (vectors are printed inside [...] )
    parts, depth, cur = [], 0, ""
    for ch in text:
        if ch in "[(":
            depth += 1
        elif ch in "])":
            depth -= 1
        if ch == "," and depth == 0:
            parts.append(cur)
            cur = ""
        else:
            cur += ch
    if cur.strip():
        parts.append(cur)
    for p in parts:
        p = p.strip()
        if ":" not in p:
            names.append("?" + p)
            continue
        name, val = p.split(":", 1)
        name, val = name.strip(), val.strip()
        name = ALIAS.get(name, name)
        names.append(name)
        vals = [val]
        if val.startswith("[") or (name == "addresses" and val.startswith("(")):
            vals = [x.strip() for x in val.strip("[]()").split(",") if x.strip()]
        for v in vals:
            if re.fullmatch(r"r\d+", v):
                regs.append(int(v[1:]))
            elif re.fullmatch(r"RegisterOperand\((\d+)\)", v):
                regs.append(int(v[16:-1]))
            elif op == "JumpTable" and name == "index":
                regs.append(int(v))      # JumpTable reads register `index` (a raw u32 operand)
            elif name in ("address", "addresses", "exit", "default") or (re.fullmatch(r"[0-9a-f]{6}", v) and name.endswith("address")):
                addrs.append(int(v, 16))
            elif re.fullmatch(r"\d+", v):
                idx.append((name, int(v)))
            elif re.fullmatch(r"-\d+", v):
                pass                      # a negative immediate: nothing the verifier indexes with
            elif re.fullmatch(r"[0-9a-f]{6}", v):
                addrs.append(int(v, 16))
            # anything else (floats, text) is an immediate the verifier does not need
    return regs, idx, addrs, names


def parse_dump(text):
    """-> dict script id -> {"status":.., "blocks":[{id, line, instrs:[(pc, op)]}], "probe": {(block id, pc): set((t,e,b))}, "run": ..}"""
    out = {}
    cur = None
    blk = None
    section = None
    for line in text.splitlines():
        if line.startswith("#### end"):
            if cur and blk:
                cur["blocks"].append(blk)
            cur, blk = None, None
            continue
        if line.startswith("#### run"):
            if blk:
                cur["blocks"].append(blk)
                blk = None
            cur["run"] = line.split()[2]
            continue
        if line.startswith("#### "):
            t = line.split()
            cur = {"status": t[2], "blocks": [], "probe": {}, "run": None}
            out[t[1]] = cur
            blk = None
            continue
        if cur is None:
            continue
        if line.startswith("P "):
            t = line.split()
            cur["probe"].setdefault((int(t[1]), int(t[2])), set()).add(tuple(int(x) for x in t[3:7]))
            continue
        m = re.match(r"==== block (\d+) ic=(\d+) id=(\d+) ====", line)
        if m:
            if blk:
                cur["blocks"].append(blk)
            blk = {"n": int(m.group(1)), "nic": int(m.group(2)), "id": int(m.group(3)), "instrs": [], "regs": 0, "consts": "", "nbind": 0,
                   "handlers": [], "name": "", "flags": [], "binds": [], "fnconsts": []}
            section = "code"
            continue
        if blk is None:
            continue
        if "Compiled Output:" in line:
            blk["name"] = line.strip("- ").replace("Compiled Output: ", "")
            continue
        m = re.match(r"Register Count: (\d+), Flags: CodeBlockFlags\((.*)\)", line)
        if m:
            blk["regs"] = int(m.group(1))
            blk["flags"] = [f.strip() for f in m.group(2).split("|")]
            section = None
            continue
        if line.startswith("Constants:"):
            section = "const"
            continue
        if line.startswith("Bindings:"):
            section = "bind"
            continue
        if line.startswith("Handlers:"):
            section = "hand"
            continue
        if line.startswith("Source Map:"):
            section = "map"
            continue
        if section == "code":
            m = INSTR.match(line)
            if m:
                blk["instrs"].append((int(m.group(1), 16), m.group(2), m.group(3)))
        elif section == "const":
            m = re.match(r"^\s+\d+: \[(STRING|BIGINT|FUNCTION|SCOPE)\]", line)
            if m:
                if m.group(1) == "FUNCTION":
                    blk["fnconsts"].append(len(blk["consts"]))
                blk["consts"] += {"STRING": "S", "BIGINT": "B", "FUNCTION": "F", "SCOPE": "C"}[m.group(1)]
        elif section == "bind":
            if re.match(r"^\s+\d+: ", line):
                blk["nbind"] += 1
                m = re.search(r"scope: Stack\((\d+)\)\s*$", line)
                blk["binds"].append("S%s" % m.group(1) if m else "G")
        elif section == "hand":
            m = HANDLER.match(line)
            if m:
                blk["handlers"].append((int(m.group(1), 16), int(m.group(2), 16), int(m.group(3), 16), int(m.group(4))))
    return out


def entry_env(blk):
    """environments function_call/function_construct push before the first instruction"""
    return int("HAS_FUNCTION_SCOPE" in blk["flags"]) + int("HAS_BINDING_IDENTIFIER" in blk["flags"])


def block_request(blk, fp=None):
    ins = blk["instrs"]
    toks = ["block", "regs=%d" % blk["regs"], "binds=%s" % (".".join(blk["binds"]) or "-"), "nic=%d" % blk["nic"], "consts=%s" % (blk["consts"] or "-"),
            "env0=%d" % entry_env(blk), "fp=%s" % ("-" if fp is None else fp),
            "handlers=%s" % (";".join("%d:%d:%d:%d" % h for h in blk["handlers"]) or "-")]
    for k, (pc, op, text) in enumerate(ins):
        nxt = ins[k + 1][0] if k + 1 < len(ins) else pc + 1
        regs, idx, addrs, names = parse_operands(text, op)
        toks.append("|")
        toks.append("%d,%d,%s,%s,%s,%s,%s" % (pc, nxt, op, ".".join(map(str, regs)), ".".join("%s=%d" % p for p in idx),
                                               ".".join(map(str, addrs)), ".".join(names)))
    return " ".join(toks)
