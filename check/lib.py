"""Shared machinery of every property check (see DESIGN.md §0/§1).

A property module `check/props/cXX.py` defines `run(ck)`; it registers proof
obligations, correspondence obligations, failing cases and finally calls
`ck.finish()` which applies the verdict logic, writes evidence/CXX.json and
exits 0 / 1 (VIOLATION line) / 2 (infrastructure failure, no VIOLATION line).
"""
import fcntl
import hashlib
import json
import os
import re
import subprocess
import sys
import time

ROOT = os.path.dirname(os.path.dirname(os.path.abspath(__file__)))
LEAN = os.path.join(ROOT, "lean")
HARNESS = os.path.join(ROOT, "harness")
TARGET = os.path.join(ROOT, ".target")
REPO = os.environ.get("BOA_REPO", "/repo")
ALLOWED_AXIOMS = {"propext", "Classical.choice", "Quot.sound"}
FORBIDDEN = re.compile(r"\b(sorry|admit|native_decide|implemented_by|unsafe)\b|^axiom |maxHeartbeats 0")


class Infra(Exception):
    pass


def sh(cmd, cwd=None, timeout=None, env=None, input=None):
    e = dict(os.environ)
    e.setdefault("CARGO_NET_OFFLINE", "true")
    if env:
        e.update(env)
    p = subprocess.run(cmd, cwd=cwd, shell=isinstance(cmd, str), capture_output=True,
                       text=True, timeout=timeout, env=e, input=input)
    return p.returncode, p.stdout, p.stderr


class Lock:
    def __init__(self, name):
        os.makedirs(os.path.join(ROOT, ".work"), exist_ok=True)
        self.path = os.path.join(ROOT, ".work", name + ".lock")

    def __enter__(self):
        self.f = open(self.path, "w")
        fcntl.flock(self.f, fcntl.LOCK_EX)
        return self

    def __exit__(self, *a):
        fcntl.flock(self.f, fcntl.LOCK_UN)
        self.f.close()


def strip_comments(text):
    """remove Lean block and line comments (nesting aware) for the forbidden-token scan"""
    out = []
    i, depth = 0, 0
    n = len(text)
    while i < n:
        if text.startswith("/-", i):
            depth += 1
            i += 2
        elif depth and text.startswith("-/", i):
            depth -= 1
            i += 2
        elif depth:
            i += 1
        elif text.startswith("--", i):
            while i < n and text[i] != "\n":
                i += 1
        else:
            out.append(text[i])
            i += 1
    return "".join(out)


def theorem_names(path):
    """fully qualified names of the theorems declared in a Theorems.lean file"""
    names = []
    ns = []
    for line in strip_comments(open(path).read()).splitlines():
        m = re.match(r"\s*namespace\s+(\S+)", line)
        if m:
            ns.append(m.group(1))
            continue
        m = re.match(r"\s*end\s+(\S+)", line)
        if m and ns and ns[-1] == m.group(1):
            ns.pop()
            continue
        m = re.match(r"\s*(?:@\[[^\]]*\]\s*)?(?:private\s+|protected\s+)?theorem\s+(\S+)", line)
        if m:
            names.append(".".join(ns + [m.group(1)]))
    return names


class Check:
    def __init__(self, pid, tier, seed, replay=None):
        self.pid = pid
        self.tier = tier
        self.seed = seed
        self.replay = replay
        self.t0 = time.time()
        self.level = "proof"
        self.obligations = []      # {name, kind, ok, detail}
        self.failing = []          # failing inputs found against the implementation
        self.drift = []            # model != implementation while the property oracle is satisfied
        self.coverage = {}
        self.assumptions = []
        self.trusted_base = [
            "Lean 4.33.0 kernel",
            "Lean compiler/runtime (driver executables only)",
            "rustc/cargo; harness crate /verif/harness built against /repo's working tree with --cfg boa_verif",
            "check/lib.py verdict logic, generators and canonicalisers",
        ]
        self.axioms = {}
        self.known_lines = []
        self.notes = []
        kf = json.load(open(os.path.join(ROOT, "known_findings.json")))
        self.known = [k for k in kf["findings"] if k["property"] == pid and k.get("status") == "known"]
        self.work = os.path.join(ROOT, ".work", pid)
        os.makedirs(self.work, exist_ok=True)

    # ------------------------------------------------------------------ builds
    def build_harness(self, bins, features=None, extra_env=None):
        """cargo build of harness binaries against /repo's current tree; returns dict name->path"""
        if isinstance(bins, str):
            bins = [bins]
        with Lock("cargo"):
            lock = os.path.join(HARNESS, "Cargo.lock")
            if not os.path.exists(lock):
                sh(["cp", os.path.join(REPO, "Cargo.lock"), lock])
            cmd = ["cargo", "build", "--offline"]
            for b in bins:
                cmd += ["--bin", b]
            if features:
                cmd += ["--features", features]
            rc, out, err = sh(cmd, cwd=HARNESS, timeout=3600, env=extra_env)
        if rc != 0:
            tail = "\n".join(err.splitlines()[-40:])
            raise Infra("harness build failed (does /repo compile?):\n" + tail)
        return {b: os.path.join(TARGET, "debug", b) for b in bins}

    def lake(self, targets, timeout=3000):
        with Lock("lake"):
            rc, out, err = sh(["lake", "build"] + list(targets), cwd=LEAN, timeout=timeout)
        return rc, out + err

    def prove(self, module, driver=None, extra_modules=()):
        """Build the property's Theorems module (every theorem is an obligation), audit axioms,
        scan for forbidden tokens. Registers one obligation per theorem."""
        rel = module.replace(".", "/") + ".lean"
        path = os.path.join(LEAN, rel)
        names = theorem_names(path)
        targets = [module] + list(extra_modules) + ([driver] if driver else [])
        rc, log = self.lake(targets)
        failed_names = set()
        if rc != 0:
            # map error lines of the Theorems file to theorem names
            src_lines = open(path).read().splitlines()
            bad_lines = [int(m.group(1)) for m in re.finditer(re.escape(rel) + r":(\d+):\d+: error", log)]
            for bl in bad_lines:
                for i in range(min(bl, len(src_lines)) - 1, -1, -1):
                    m = re.match(r"\s*(?:@\[[^\]]*\]\s*)?theorem\s+(\S+)", src_lines[i])
                    if m:
                        failed_names.add(m.group(1))
                        break
            if not bad_lines:
                failed_names = {"<build of %s>" % module}
        # forbidden tokens anywhere in the property's directory
        pdir = os.path.dirname(path)
        dirty = []
        for root, _, files in os.walk(pdir):
            for f in files:
                if f.endswith(".lean"):
                    txt = strip_comments(open(os.path.join(root, f)).read())
                    for ln in txt.splitlines():
                        if FORBIDDEN.search(ln):
                            dirty.append("%s: %s" % (f, ln.strip()[:80]))
        if dirty:
            self.obligations.append({"name": "no-forbidden-tokens", "kind": "audit", "ok": False, "detail": dirty[:5]})
        axioms = {}
        if rc == 0:
            audit = os.path.join(self.work, "Audit.lean")
            with open(audit, "w") as f:
                f.write("import %s\n" % module)
                for n in names:
                    f.write("#print axioms %s\n" % n)
            with Lock("lake"):
                arc, aout, aerr = sh(["lake", "env", "lean", audit], cwd=LEAN, timeout=1200)
            if arc != 0:
                raise Infra("axiom audit failed: " + (aout + aerr)[-2000:])
            txt = aout.replace("\n ", " ")
            for m in re.finditer(r"'([^']+)' (does not depend on any axioms|depends on axioms: \[([^\]]*)\])", txt):
                axs = [a.strip() for a in (m.group(3) or "").split(",") if a.strip()]
                axioms[m.group(1)] = axs
        self.axioms.update(axioms)
        for n in names:
            short = n.split(".")[-1]
            ok = rc == 0 and short not in failed_names and n not in failed_names
            detail = None
            if rc != 0 and failed_names and not ok:
                detail = "does not check: " + log[-1500:]
            elif rc != 0 and ok:
                # build broke elsewhere; the theorem is not established on this run
                ok = False
                detail = "build of %s failed elsewhere" % module
            if ok:
                extra = [a for a in axioms.get(n, []) if a not in ALLOWED_AXIOMS and not self.axiom_allowed(a)]
                if n not in axioms:
                    ok, detail = False, "no #print axioms output"
                elif extra:
                    ok, detail = False, "unexpected axioms: %s" % extra
            self.obligations.append({"name": n, "kind": "theorem", "ok": ok, "detail": detail})
        if not names:
            self.obligations.append({"name": module, "kind": "theorem", "ok": False, "detail": "no theorems found"})
        return rc == 0, log

    allowed_axiom_patterns = ()

    def axiom_allowed(self, a):
        return any(re.search(p, a) for p in self.allowed_axiom_patterns)

    def driver(self, name, lines, timeout=600):
        """pipe request lines through the property's native Lean driver; returns the answer lines"""
        exe = os.path.join(LEAN, ".lake", "build", "bin", name)
        if not os.path.exists(exe):
            rc, log = self.lake([name])
            if rc != 0:
                raise Infra("driver %s does not build:\n%s" % (name, log[-2000:]))
        data = "\n".join(lines) + "\n"
        p = subprocess.run([exe], input=data, capture_output=True, text=True, timeout=timeout)
        if p.returncode != 0:
            raise Infra("driver %s failed rc=%s: %s" % (name, p.returncode, p.stderr[-500:]))
        out = p.stdout.split("\n")
        if out and out[-1] == "":
            out.pop()
        if len(out) != len(lines):
            raise Infra("driver %s answered %d lines for %d requests" % (name, len(out), len(lines)))
        return out

    def driver_parallel(self, name, lines, workers=16, timeout=3000):
        """like driver, for STATELESS drivers only: the requests are split into contiguous chunks answered by
        concurrent driver processes; the answers come back in request order"""
        if len(lines) < 4000:
            return self.driver(name, lines, timeout=timeout)
        from concurrent.futures import ThreadPoolExecutor
        n = (len(lines) + workers - 1) // workers
        chunks = [lines[i:i + n] for i in range(0, len(lines), n)]
        self.driver(name, chunks[0][:1], timeout=timeout)        # builds the driver once if needed
        with ThreadPoolExecutor(max_workers=workers) as ex:
            parts = list(ex.map(lambda c: self.driver(name, c, timeout=timeout), chunks))
        return [a for part in parts for a in part]

    def run_cases(self, exe, cases, workers=16, mem_gb=6, timeout=3000):
        """Run `cases` = [(id, header_rest, body)] through a harness binary that answers one JSON line per `//// id …` case.
        The cases are spread over `workers` processes, each with an address-space limit; when a process dies the first case
        without an answer gets {"completion": "abort …"} and the rest is run in a new process. Returns {id: answer}."""
        import resource
        from concurrent.futures import ThreadPoolExecutor

        def limit():
            try:
                resource.setrlimit(resource.RLIMIT_AS, (mem_gb << 30, mem_gb << 30))
            except (ValueError, OSError):
                pass

        def one(chunk):
            out = {}
            rest = chunk
            while rest:
                data = []
                for cid, hdr, body in rest:
                    data.append(("//// %s %s" % (cid, hdr)).encode())
                    data.append(body if isinstance(body, bytes) else body.encode("utf-8", "surrogatepass"))
                p = subprocess.run([exe], input=b"\n".join(data) + b"\n", capture_output=True, timeout=timeout, preexec_fn=limit)
                n = 0
                for l in p.stdout.decode("utf-8", "replace").split("\n"):
                    if l.startswith("{"):
                        try:
                            d = json.loads(l)
                        except ValueError:
                            continue
                        out[d.get("id")] = d
                        n += 1
                if p.returncode == 0 or n >= len(rest):
                    break
                cid = rest[n][0]
                out[cid] = {"id": cid, "out": [], "completion": "abort rc=%s %s" % (p.returncode, p.stderr.decode("utf-8", "replace")[-160:]), "jobs": "", "detail": ""}
                rest = rest[n + 1:]
            return out

        chunks = [cases[i::workers] for i in range(workers)]
        res = {}
        with ThreadPoolExecutor(max_workers=workers) as ex:
            for part in ex.map(one, [c for c in chunks if c]):
                res.update(part)
        return res

    def run_bin(self, exe, args=(), input=None, timeout=3000, env=None):
        def limit():
            # a generated program that doubles a string in nested loops must not take the machine down: 12 GB of address space
            try:
                import resource
                resource.setrlimit(resource.RLIMIT_AS, (12 << 30, 12 << 30))
            except (ValueError, OSError, ImportError):
                pass
        p = subprocess.run([exe] + [str(a) for a in args], input=input, capture_output=True, text=True,
                           timeout=timeout, env={**os.environ, **(env or {})}, preexec_fn=limit)
        return p.returncode, p.stdout, p.stderr

    # ------------------------------------------------------------- obligations
    def oblige(self, name, kind, ok, detail=None):
        self.obligations.append({"name": name, "kind": kind, "ok": bool(ok), "detail": detail})

    def fail_input(self, case):
        """a concrete input on which the implementation violates the property
        case: dict with at least 'input', 'expected', 'actual', 'site'"""
        self.failing.append(case)

    def model_drift(self, case):
        self.drift.append(case)

    # ------------------------------------------------------------------ verdict
    def match_known(self, case):
        for k in self.known:
            m = k.get("matcher", {})
            ok = True
            if "site" in m and m["site"] != case.get("site"):
                ok = False
            if ok and "input_regex" in m and not re.search(m["input_regex"], json.dumps(case.get("input"), sort_keys=True)):
                ok = False
            if ok and "actual_regex" in m and not re.search(m["actual_regex"], json.dumps(case.get("actual"), sort_keys=True)):
                ok = False
            if ok and "input_equals" in m and m["input_equals"] != case.get("input"):
                ok = False
            if ok:
                return k
        return None

    def write_replay(self, body):
        os.makedirs(os.path.join(ROOT, "replays"), exist_ok=True)
        h = hashlib.sha1(json.dumps(body, sort_keys=True, default=str).encode()).hexdigest()[:12]
        path = os.path.join(ROOT, "replays", "%s-%s.json" % (self.pid, h))
        with open(path, "w") as f:
            json.dump(body, f, indent=1, default=str)
        return path

    def finish(self):
        violations = []
        seen_known = {}
        new_fail = []
        for c in self.failing:
            k = self.match_known(c)
            if k:
                seen_known.setdefault(k["id"], (k, c))
            else:
                new_fail.append(c)
        for kid, (k, c) in seen_known.items():
            print("KNOWN-FINDING: property=%s %s [%s]" % (self.pid, k["description"], kid))
        for k in self.known:
            if k["id"] not in seen_known:
                self.notes.append("known finding %s was not reproduced on this run" % k["id"])
        # one replay per distinct site first, then more of the same, at most eight
        firsts, rest_, seen_sites = [], [], set()
        for c in new_fail:
            (rest_ if c.get("site") in seen_sites else firsts).append(c)
            seen_sites.add(c.get("site"))
        for c in (firsts + rest_)[:8]:
            body = {"property": self.pid, "kind": "failing-input", "seed": self.seed, "tier": self.tier}
            body.update(c)
            body["broken_obligations"] = [o["name"] for o in self.obligations if not o["ok"]]
            violations.append((self.write_replay(body), False))
        broken = [o for o in self.obligations if not o["ok"]]
        if not new_fail:
            if broken:
                body = {"property": self.pid, "kind": "no-failing-input-found", "seed": self.seed, "tier": self.tier,
                        "broken": [{"name": o["name"], "kind": o["kind"], "detail": o["detail"]} for o in broken],
                        "model_drift_cases": self.drift[:5]}
                violations.append((self.write_replay(body), True))
            elif self.drift:
                body = {"property": self.pid, "kind": "no-failing-input-found", "seed": self.seed, "tier": self.tier,
                        "broken": [{"name": "correspondence", "kind": "correspondence",
                                    "detail": "model and implementation differ although the property oracle is satisfied"}],
                        "model_drift_cases": self.drift[:5]}
                violations.append((self.write_replay(body), True))
        cov = dict(self.coverage)
        n_ob = len(self.obligations)
        cov.setdefault("obligations", n_ob)
        cov.setdefault("discharged", sum(1 for o in self.obligations if o["ok"]))
        cov.setdefault("checker_cmd", "lake build (Lean 4.33.0 kernel) + #print axioms audit + correspondence run; python3 check/run.py %s --tier %s" % (self.pid, self.tier))
        cov.setdefault("trusted_base", self.trusted_base)
        cov["obligation_list"] = [{"name": o["name"], "kind": o["kind"], "ok": o["ok"]} for o in self.obligations]
        cov["axioms"] = self.axioms
        cov["known_findings_seen"] = sorted(seen_known)
        cov["failing_inputs"] = len(self.failing)
        sites = {}
        for c in self.failing:
            sites[str(c.get("site"))] = sites.get(str(c.get("site")), 0) + 1
        cov["failing_sites"] = sites
        cov["model_drift"] = len(self.drift)
        if self.drift:
            cov["model_drift_samples"] = self.drift[:5]
        if self.notes:
            cov["notes"] = self.notes
        ev = {"property_id": self.pid, "tier": self.tier, "seed": self.seed, "level": self.level,
              "coverage": cov, "assumptions": self.assumptions, "wall_s": round(time.time() - self.t0, 2),
              "violations": len(violations)}
        os.makedirs(os.path.join(ROOT, "evidence"), exist_ok=True)
        with open(os.path.join(ROOT, "evidence", self.pid + ".json"), "w") as f:
            json.dump(ev, f, indent=1, default=str)
        for path, nofound in violations:
            rel = os.path.relpath(path, ROOT)
            print("VIOLATION property=%s replay=%s%s" % (self.pid, rel, " no-failing-input-found" if nofound else ""))
        sys.stdout.flush()
        sys.exit(1 if violations else 0)


def rng(seed):
    """splitmix64, same stream as the harness' Rng"""
    state = [(seed ^ 0x9E3779B97F4A7C15) & 0xFFFFFFFFFFFFFFFF]

    def nxt():
        state[0] = (state[0] + 0x9E3779B97F4A7C15) & 0xFFFFFFFFFFFFFFFF
        z = state[0]
        z = ((z ^ (z >> 30)) * 0xBF58476D1CE4E5B9) & 0xFFFFFFFFFFFFFFFF
        z = ((z ^ (z >> 27)) * 0x94D049BB133111EB) & 0xFFFFFFFFFFFFFFFF
        return z ^ (z >> 31)
    return nxt
