#!/usr/bin/env python3
"""setup_cmd: build the Lean project and the harness offline, from files on disk."""
import glob
import os
import subprocess
import sys

ROOT = os.path.dirname(os.path.dirname(os.path.abspath(__file__)))
env = dict(os.environ, CARGO_NET_OFFLINE="true")


def run(cmd, cwd):
    print("+", " ".join(cmd), flush=True)
    r = subprocess.run(cmd, cwd=cwd, env=env)
    if r.returncode != 0:
        sys.exit(r.returncode)


lock = os.path.join(ROOT, "harness", "Cargo.lock")
if not os.path.exists(lock):
    subprocess.run(["cp", "/repo/Cargo.lock", lock], check=True)
os.makedirs(os.path.join(ROOT, ".work"), exist_ok=True)
os.makedirs(os.path.join(ROOT, "replays"), exist_ok=True)
run(["cargo", "build", "--offline", "--bins"], os.path.join(ROOT, "harness"))
run(["lake", "build"], os.path.join(ROOT, "lean"))
r = subprocess.run([os.path.join(ROOT, ".target", "debug", "ping")], capture_output=True, text=True)
print(r.stdout.strip())
if '"ok str:x1"' not in r.stdout:
    print("self-test failed", file=sys.stderr)
    sys.exit(1)
print("setup ok")
